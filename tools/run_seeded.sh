#!/bin/sh
# usage: run_seeded.sh [tier] [ids...]  - runs the check of each seeded change's property on the
# patched sources (go/packages overlay; /repo untouched) and records whether it is reported.
cd "$(dirname "$0")/.." || exit 3
export GOFLAGS=-mod=mod GOPROXY=off GOSUMDB=off GOTOOLCHAIN=local
tier="${1:-quick}"; shift
dirs="$@"; [ -z "$dirs" ] && dirs=$(ls seeded)
for d in $dirs; do
  prop=$(jq -r .property seeded/$d/meta.json)
  if ! jq -e --arg p "$prop" '.checks[] | select(.property_id==$p)' MANIFEST.json >/dev/null; then echo "$d $prop not-claimed"; continue; fi
  out=$(./tools/with_patch.sh seeded/$d/patch.diff timeout 2400 ./bin/gcv check -property $prop -tier $tier 2>&1)
  v=$(echo "$out" | grep -c '^VIOLATION')
  u=$(echo "$out" | grep -c '^UNDECIDED')
  last=$(echo "$out" | grep '^property' | tail -1 | cut -c1-150)
  first=$(echo "$out" | grep '^VIOLATION' | head -1 | sed 's/.*obligation=//' | cut -c1-140)
  res=missed; [ "$u" -gt 0 ] && res=undecided; [ "$v" -gt 0 ] && res=caught
  echo "$d $prop $tier $res violations=$v undecided=$u first=[$first] $last"
done
