#!/bin/sh
# usage: confirm_seeded.sh <seeded-dir>...
# Confirms a seeded change in a scratch worktree outside /repo and /verif:
#  (a) clean tree: demo passes; (b) with the change: build ok, existing tests of touched
#  packages pass, demo fails.  Writes <seeded-dir>/confirm.log and prints one line per dir.
export GOFLAGS=-mod=mod GOPROXY=off GOSUMDB=off GOTOOLCHAIN=local
for d in "$@"; do
  d=$(readlink -f "$d"); id=$(basename "$d")
  wt=$(mktemp -d /tmp/confirm-$id-XXXX); rmdir "$wt"
  git -C /repo worktree add -q --detach "$wt" HEAD || { echo "$id: worktree failed"; continue; }
  demo_dir=$(jq -r .demo_dir "$d/meta.json"); tags=$(jq -r .demo_tags "$d/meta.json")
  tagflag=""; [ -n "$tags" ] && tagflag="-tags $tags"
  log="$d/confirm.log"; : > "$log"
  cp "$d/demo_test.go" "$wt/$demo_dir/zz_seeded_demo_test.go"
  (cd "$wt" && go test $tagflag -vet=off -count=1 -timeout 10m -run 'C[0-9][0-9]|Demo|Seed|M[12]' ./$demo_dir/ ) >> "$log" 2>&1; a=$?
  echo "== clean demo exit $a" >> "$log"
  (cd "$wt" && git apply "$d/patch.diff") >> "$log" 2>&1 || { echo "$id: patch does not apply"; git -C /repo worktree remove --force "$wt"; continue; }
  (cd "$wt" && go build ./weed/... ) >> "$log" 2>&1; b=$?
  echo "== mutated build exit $b" >> "$log"
  rm -f "$wt/$demo_dir/zz_seeded_demo_test.go"
  pk=""; for f in $(jq -r '.touched[]' "$d/meta.json"); do pk="$pk ./$(dirname $f)/..."; done
  (cd "$wt" && go test -vet=off -count=1 -timeout 20m $pk ) > "$log.tests" 2>&1; c=$?
  # the unchanged tree already fails erasure_coding TestPositioning and has a flaky TestFastLoadingNeedleMapMetrics
  fails=$(grep -E '^--- FAIL' "$log.tests" | grep -v -E 'TestPositioning|TestFastLoadingNeedleMapMetrics' | wc -l)
  cat "$log.tests" >> "$log"; rm -f "$log.tests"
  echo "== mutated existing tests exit $c unexpected-failures $fails" >> "$log"
  cp "$d/demo_test.go" "$wt/$demo_dir/zz_seeded_demo_test.go"
  (cd "$wt" && go test $tagflag -vet=off -count=1 -timeout 10m -run 'C[0-9][0-9]|Demo|Seed|M[12]' ./$demo_dir/ ) >> "$log" 2>&1; e=$?
  echo "== mutated demo exit $e" >> "$log"
  git -C /repo worktree remove --force "$wt"
  ok=no; [ $a -eq 0 ] && [ $b -eq 0 ] && [ "$fails" -eq 0 ] && [ $e -ne 0 ] && ok=yes
  echo "$id: clean_demo=$a build=$b unexpected_test_failures=$fails mutated_demo=$e confirmed=$ok"
done
