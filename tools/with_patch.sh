#!/bin/sh
# usage: with_patch.sh <patch.diff> <command...>
# Applies the patch to copies of the touched files in a scratch directory outside /repo and
# /verif, and runs the command with GCV_OVERLAY pointing at it (gcv then analyses the patched
# sources through a go/packages overlay; /repo itself is never modified).
patch=$(readlink -f "$1"); shift
tmp=$(mktemp -d "${TMPDIR:-/tmp}/gcv-overlay-XXXXXX") || exit 3
trap 'rm -rf "$tmp"' EXIT INT TERM
for f in $(grep '^+++ ' "$patch" | sed 's|^+++ b/||; s|^+++ ||' | awk '{print $1}'); do
  [ "$f" = "/dev/null" ] && continue
  mkdir -p "$tmp/$(dirname "$f")"
  [ -f "/repo/$f" ] && cp "/repo/$f" "$tmp/$f"
done
(cd "$tmp" && patch -s -p1 < "$patch") || { echo "patch failed to apply: $patch"; exit 3; }
find "$tmp" -name '*.orig' -delete
GCV_OVERLAY="$tmp" "$@"
