#!/usr/bin/env python3
"""Regenerates /verif/MANIFEST.json from the tables below (run from /verif)."""
import json, subprocess

REPO_HOOK_COMMITS = subprocess.run(
    ["git", "-C", "/repo", "log", "--format=%H %s"], capture_output=True, text=True).stdout.splitlines()
hook_commits = [l.split()[0] for l in REPO_HOOK_COMMITS if " verif hook:" in l]

TRUST = ("Trusted: the gcv VC generator (/verif/gcv: go/ssa symbolic execution, Int encoding with exact wrap-around, "
         "heap as per-field SMT arrays, built-in models of append/copy/len/maps/strings/bytes.Buffer/sync/atomic), go/ssa + go/types, "
         "z3 4.8.12 / z3 5.1.0 / cvc5 1.0.3. Assumed: A1 logging/metrics are effect-free; A2 pointer and slice parameters are distinct objects; "
         "A3 package-level error variables are constants; A4 strings are byte strings; A7 receivers are non-nil; sequential execution (locks are ghost no-ops); "
         "termination only where a decreases clause is discharged. Every extern/trusted contract and every havoc'd call is listed in the evidence file.")

CLAIMED = {
 "C02": dict(
   text="Proof-level kernel: the real functions PaddingLength, NeedleBodyLength, GetActualSize, the flag predicates, ParseNeedleHeader, "
        "readNeedleDataVersion2 (memory safety on well-formed input) and prepareWriteBuffer (versions 2 and 3, all 64 flag combinations symbolic) "
        "are executed symbolically and meet contracts taken from the statement: record size formula, 8-byte alignment, length == GetActualSize, "
        "header bytes, data bytes copied, flags byte position; ReadBytes (decoding a whole record) succeeds only if the header size is the expected one and the stored "
        "checksum is the checksum of exactly the decoded data bytes, and yields the stored cookie, checksum and append timestamp. Unbounded in every length.",
   note="Not decided here: the byte layout of ttl/pairs inside the record and the full decode(encode(n)) == n composition as one lemma, CRC strength "
        "(crc32 is an uninterpreted function), ScanVolumeFileFrom. " + TRUST,
   design="DESIGN.md §4 C02"),
 "C06": dict(
   text="Proof-level kernel: (1) the real LocateData is verified with an inductive loop invariant (unbounded read size): the cursor always stands at "
        ".dat position offset+consumed, every appended interval stays inside one block, records the row count (datSize-1)/(10*large) and ends where "
        "the cursor is; (2) ghost lemmas (Go functions behind the verif tag) run the real ToShardIdAndOffset / LocateData symbolically and prove that "
        "for every .dat size D <= 8 TiB and every offset the EC read path, which only sees 10 x shard size, addresses exactly the shard position of the "
        "encoder's layout function from the statement (production sizes and the scaled 10000/100 sizes); (3) the row count derived from 10 x shard size "
        "equals the encoder's row count.",
   note="Not decided here: encodeDatFile/WriteDatFile loops against the layout function (file I/O), Reed-Solomon reconstruction (library), "
        "rebuildEcFiles; that every (not only the last) appended interval keeps its value relies on LocateData being append-only. " + TRUST,
   design="DESIGN.md §4 C06"),
}

CLAIMED["C08"] = dict(
   text="Proof-level kernel: TTL bytes/uint32/string codecs (ToBytes, LoadTTLFromBytes, ToUint32, LoadTTLFromUint32, String, ReadTTL, Minutes) with "
        "round-trip lemmas for every count and unit (the string round trip uses the SMT theory of strings for Itoa/Atoi); replica placement "
        "Byte/FromByte/String/FromString with round-trip lemmas and rejection of every byte or string with a digit above 2; super block header "
        "Bytes/ReadSuperBlock field by field over a ghost file, including the read of the extra metadata; the big-endian helpers in weed/util.",
   note="Not decided here: file id strings (hex encoding), protobuf content of the extra metadata (library), index entries (see C05/C07). "
        "ReadSuperBlock is verified against an assumed contract of BackendStorageFile.ReadAt over a ghost byte sequence. " + TRUST,
   design="DESIGN.md §4 C08")
CLAIMED["C13"] = dict(
   text="Proof-level kernel: MemorySequencer and EtcdSequencer NextFileId/SetMax meet contracts from the statement: returned ranges lie inside the "
        "reserved range and above every earlier range of the same master; an inductive invariant (no key <= any reported max key can be handed out "
        "any more) is preserved by NextFileId and established by SetMax, for an arbitrary reported key (ghost variable).",
   note="The etcd helpers are assumed compare-and-swap contracts over a ghost etcd value; interleavings (locks are ghost), raft leader changes, the "
        "snowflake sequencer and the heartbeat ordering in master_grpc_server.go are out of reach. Two open findings (64-bit wrap-around) are listed in "
        "known_findings.json. " + TRUST,
   design="DESIGN.md §4 C13")

CLAIMED["C32"] = dict(
   text="Proof-level kernel: parseRange is verified for every header string with an inductive loop invariant - every range it returns starts inside "
        "the content, is non-empty and ends inside the content (pieces of the header are arbitrary strings, strconv.ParseInt is modelled exactly); "
        "processRangeRequest is executed with the HTTP library abstracted and proved to produce an answer on every path (writer callback, error "
        "status or multipart stream); the writer callback of writeResponseContent seeks to exactly the requested offset and copies exactly the "
        "requested length on every invocation.",
   note="Effect obligations (which calls are made with which arguments), not byte contents: multipart framing, gzip negotiation and the HTTP "
        "library are opaque. " + TRUST,
   design="DESIGN.md §4 C32")

CLAIMED["C09"] = dict(
   text="Proof-level kernel: the expiry decision of Volume.readNeedle (data is returned only for a record whose append time + TTL lies in the future; a "
        "record that was read is reported not-found only if that time has passed - exact 64-bit arithmetic over a ghost clock), Volume.expired and "
        "expiredLongEnough (true only when more than the TTL has passed since the recorded modification time), TTL.Minutes, and the lemma "
        "minutes(ReadTTL(SecondsToTTL(s))) * 60 >= s for every lifetime up to 255 years (SMT string theory for the formatted TTL).",
   note="ReadData is abstracted (any decoded needle, timestamps below 2^62); compaction's keep-predicate (C04), the link between the volume's modification "
        "time and append times, and the filer->assign plumbing are not decided here. " + TRUST,
   design="DESIGN.md §4 C09")

CLAIMED["C23"] = dict(
   text="Proof-level kernel: mergePathConf meets the field-wise contract from the statement for all seven settings (a field of the longer rule "
        "overrides when it is set, nothing else is written - checked frame); a lemma composes two merges into 'the longer rule wins per field, else "
        "the shorter, else the default'; the visitors handed to the prefix trie merge every visited rule without stopping the traversal and copy "
        "every rule except the one whose prefix equals the deleted prefix.",
   note="Assumed (library): ptrie.MatchPrefix visits exactly the stored prefixes of the path in increasing length and Walk visits every rule; the "
        "n-rule statement is the fold of the proved two-rule step. " + TRUST,
   design="DESIGN.md §4 C23")
CLAIMED["C35"] = dict(
   text="Proof-level kernel of the sequential behaviour: vidMap.addLocation keeps the per-volume list duplicate free by Url, keeps existing entries in "
        "place and appends a new location exactly when its Url is absent; deleteLocation shortens the list by exactly one entry when the Url is "
        "present, every remaining entry is the old entry at the same or the next position, and the array shared with slices handed out earlier by "
        "GetLocations is not rewritten; GetLocations returns the stored list.",
   note="Not decided here: schedules (locks are ghost), the same-data-center-first ordering of LookupVolumeServerUrl (needs permutation reasoning), and "
        "three clauses of deleteLocation on which all solvers time out (listed in the contract file). " + TRUST,
   design="DESIGN.md §4 C35")

CLAIMED["C07"] = dict(
   text="Proof-level kernel under both index offset widths (build tags verif and verif,5BytesOffset): SearchNeedleFromSortedIndex over a ghost .ecx file "
        "(binary search with an inductive invariant): not-found is reported only when no entry has the key, a found entry invokes the callback exactly "
        "once with that entry's byte offset; MarkNeedleDeleted overwrites exactly the 4 size bytes of the entry at the offset it is given with the "
        "tombstone and leaves every other byte of the file unchanged; DeleteNeedleFromEcx journals (seek to end, write) exactly when the entry was marked.",
   note="File contents are a built-in ghost model (ReadAt/WriteAt per io.ReaderAt/io.WriterAt); the journal replay RebuildEcxFile, WriteIdxFileFromEcIndex and "
        "SortedFileNeedleMap.Delete reuse the same search and are not separately specified. " + TRUST,
   design="DESIGN.md §4 C07")

CLAIMED["C37"] = dict(
   text="Proof-level kernel: Volume.BinarySearchByAppendAtNs over a ghost index with non-decreasing append timestamps (inductive invariant): 'nothing newer' "
        "is reported only if no entry is newer than the given timestamp, otherwise the returned entry is the first newer one; sendFileContent reads "
        "consecutive blocks exactly one buffer apart starting at the start offset and reaches the stop offset on success (loop invariant over the read "
        "offsets); the index rebuild step puts records with a positive size and deletes every other key, one call each.",
   note="The three index/record readers used by the search are assumed (ghost functions idxEntries/idxNs); the RPC stream, local compaction and the history "
        "argument (backup converges after any sequence of runs) are not decided here. " + TRUST,
   design="DESIGN.md §4 C37")

CLAIMED["C05"] = dict(
   text="Proof-level kernel, both offset widths (build tags verif and verif,5BytesOffset): the running counters (mapMetric.logPut / logDelete / LogFileCounter / "
        "LogDeletionCounter / MaybeSetMaxFileKey: exact deltas modulo the counter width) and the reload step (the closure doLoading hands to WalkIndexFile): "
        "replaying one index entry changes file count, byte totals, deletion count/bytes and the maximum key exactly as the live Put/Delete that appended the "
        "entry did, and calls Set/Delete on the value map once with the entry's key and size; the Offset codec (IsZero, ToOffset, ToActualOffset, "
        "OffsetToBytes, BytesToOffset) is exact for 4- and 5-byte offsets.",
   note="The value map behind NeedleMap (CompactMap sections and overflow, MemDb) is an assumed interface (Set/Delete return some previous entry; live entries "
        "have non-zero offsets): its lookup semantics, the LevelDB and sorted-file maps and the bloom-filter estimate newNeedleMapMetricFromIndexFile are not "
        "decided here. One open known finding (empty blob replayed as a delete); one defect repaired (tombstone of an absent key counted on reload). " + TRUST,
   design="DESIGN.md §4 C05")

CLAIMED["C36"] = dict(
   text="Proof-level kernel: Replicator.Replicate and the event function of filer.sync (genProcessFunction's closure, buildKey) are executed symbolically with the "
        "sink abstracted (name, target directory and incremental flag as ghost functions of the sink; DeleteEntry/CreateEntry/UpdateEntry counted with their "
        "arguments recorded): the sink is touched only for a path inside the source directory - containment on path boundaries, as computed by the verified "
        "util.IsPathInDir, so a sibling whose name starts with the directory's name is outside -, never for a change from the other cluster when the sink is a "
        "filer, deletions only delete and creations only create, and every key (and the new parent directory of a move) handed to the sink is the target "
        "directory joined with the part of the source path below the source directory (SMT theory of strings).",
   note="filepath.Join is an uninterpreted function of its elements; the mapping for incremental sinks (date element) and the sinks themselves (local, filer, "
        "cloud) are not decided here; assumed: sink methods change only the sink. One defect repaired (prefix test instead of path containment). " + TRUST,
   design="DESIGN.md §4 C36")

CLAIMED["C34"] = dict(
   text="Proof-level kernel of the decision: VolumeServer.maybeCheckJwtAuthorization succeeds, when a signing key for the kind of access is configured, only for a request "
        "that carries a token which verifies under exactly that key (write key for writes, read key for reads) and whose file id claim equals volume id, comma, file id "
        "without the sub-file suffix (SMT theory of strings; strings.LastIndex axiomatised); the key function DecodeJwt hands to the jwt library releases the key only "
        "for HMAC tokens; guard obligations on the real PostHandler, DeleteHandler and GetOrHeadHandler (everything else abstracted): the store and the replicated "
        "write/delete are reached only after that check returned true for the access kind and for the volume id string the request names.",
   note="The jwt library is abstract (ghost functions: token carried by the request, 'token verifies under key', file id claim): signature, expiry and not-before checks "
        "inside the library, and how embedded claim types are validated, are assumed; the handlers are abstracted (module calls opaque, memory safety not checked, callee "
        "preconditions assumed), so only the order of calls is proved there. " + TRUST,
   design="DESIGN.md §4 C34")

CLAIMED["C24"] = dict(
   text="Proof-level kernel of what the embedded stores persist: EntryAttributeToPb / PbToEntryAttribute, Entry.ToExistingProtoEntry / FromPbEntryToExistingEntry meet "
        "field-by-field contracts (every attribute, chunk list, extended attributes, hard link id and counter, inline content, remote info; checked frames), and a lemma "
        "that runs the two real functions back to back proves the round trip for every field (times at whole seconds); BeforeEntrySerialization / "
        "AfterEntryDeserialization are verified with inductive loop invariants for chunk lists of any length: every parseable chunk file id becomes its parsed "
        "object and is rebuilt from it, everything else is left alone; ToFileIdObject / toFileIdString / NewFileId against the abstract file id codec.",
   note="Assumed (libraries): protobuf Marshal/Unmarshal, gzip (MaybeGzipData / MaybeDecompressData) and leveldb return what they were given; the textual file id codec "
        "(hex / decimal) is abstract with the assumption parse(format(x)) = x; chunk lists hold distinct non-nil chunks (precondition). The store-specific key "
        "layout and listing code of leveldb/leveldb2/leveldb3 are not decided here. " + TRUST,
   design="DESIGN.md §4 C24")

CLAIMED["C26"] = dict(
   text="Proof-level kernel of the authorisation decision: IdentityAccessManagement.authRequest succeeds only with an identity whose V2 / V4 header / V4 presigned / "
        "V4 streaming seed signature on this request was verified (verifiers abstract) or with the configured anonymous identity for a request that has no "
        "Authorization header, and only if that identity's action list allows the action on the request's bucket; Identity.canDo and isAdmin are proved equivalent "
        "(both directions) to the allow-predicate from the statement (global Admin, the action, or <action>:<bucket> / Admin:<bucket> literally or by a '*' prefix "
        "pattern) with inductive loop invariants over action lists of any length in the SMT theory of strings; lookupAnonymous; getRequestAuthType is total and "
        "classifies as anonymous only requests without Authorization header; the wrapper installed by Auth reaches the wrapped handler only after authRequest "
        "succeeded for the wrapper's action.",
   note="HMAC signature computation, the chunk signatures of streaming uploads and the router are abstract; iamapi.GetActions (policy documents) is not decided here. "
        "One defect repaired (streaming-signed requests were let through unauthenticated), one open known finding (multipart/form-data POST requests are let through "
        "unauthenticated outside the POST policy handler). " + TRUST,
   design="DESIGN.md §4 C26")

CLAIMED["C20"] = dict(
   text="Proof-level kernel: Filer.deleteChunksIfNotNew is verified with inductive loop invariants for chunk lists of any length - every chunk it passes to DeleteChunks "
        "has a file id that occurs nowhere among the chunks of the new entry (file id = the FileId string or the rendering of the parsed Fid; GetFileIdString's "
        "caching is proved not to change it), DeleteChunks is called exactly once; guard obligations on the real CreateEntry (the old entry's chunks are collected "
        "only after exactly one successful InsertEntry/UpdateEntry) and DeleteEntryMetaAndData (chunks reach the direct deletion sink only when data deletion was "
        "requested and the entry is not hard linked or is the last link), with the store, listing and notification abstracted.",
   note="Not decided here: the completeness direction (every chunk that stopped being referenced is scheduled), the chunk lists gathered from folder children by "
        "doBatchDeleteFolderMetaAndData (recursion over listings; the seeded change C20-m1 lives there and is not detected), manifest resolution inside DeleteChunks, the "
        "deletion queue worker, renames. Assumed: the store deletion helpers do not modify the in-memory entry. One defect repaired (data of a hard linked file deleted "
        "with the first name). " + TRUST,
   design="DESIGN.md §4 C20")

CLAIMED["C31"] = dict(
   text="Proof-level kernel: TieredChunkCache.doSetChunk stores in the memory layer exactly the chunks within the first size limit and in exactly one disk tier chosen by the "
        "chunk length, under the needle key parsed from the file id; doGetChunk / doGetChunkSlice answer only with data at least as long as requested that a layer returned "
        "for this file id (memory) or its needle key (disk), pass offset and length through unchanged, and probe every tier in which a chunk of the requested size may have "
        "been stored (so every stored chunk is found again in the tier it went to); ChunkCacheVolume.WriteNeedle over the ghost file model: the chunk is written at the "
        "logical end, the file is padded to the next 8-byte boundary (both writes, at the right offsets), the logical size stays aligned, the index entry gets key, offset "
        "and length; getNeedleSlice reads once and never returns more than requested.",
   note="The layers (memory cache, per-tier volume rotation, leveldb index) are abstract: rotation/eviction and restart (seeded changes C31-m1/m2 live in Reset/ "
        "LoadOrCreate and in the padding write respectively) are only covered where they touch WriteNeedle. One open known finding: the disk tiers are keyed by the needle "
        "key alone, so file ids sharing a key alias (the lemma that the key identifies the file is refuted and listed). " + TRUST,
   design="DESIGN.md §4 C31")

CLAIMED["C11"] = dict(
   text="Proof-level kernel of the writability decision: VolumeLocationList.Set / Remove are verified as set operations keyed by (Ip, Port) with inductive loop "
        "invariants for lists of any length (replace in place or append; remove exactly the first matching entry and report whether there was one; checked frames); "
        "enoughCopies equals the statement's replica-count condition; setVolumeWritable / removeFromWritable keep the writable list a set; isAllWritable is true exactly "
        "when no registered replica reports the volume read-only; ensureCorrectWritables and SetVolumeAvailable add a volume to the writable list only after "
        "enoughCopies, isAllWritable and the oversized state were asked for that volume id and allowed it, and remove it when copies or writability fail; "
        "RegisterVolume registers the server, records the oversized state on every path (deferred call) and Lookup returns the registered list. Guards on the "
        "withdrawing side: SetVolumeUnavailable takes a disconnected server out of the list, never offers the volume and withdraws it when fewer replicas remain than "
        "the setting asks for; UnRegisterVolume takes the server out, forgets its read-only / oversized reports, re-evaluates the writable state for exactly that "
        "volume and drops the volume with its last server; SetVolumeCapacityFull withdraws the volume.",
   note="What a server reports about a volume (DataNode.GetVolumesById over the disk tree) and the oversized / read-only bookkeeping (volumesBinaryState) are abstract; "
        "that removeFromWritable leaves no occurrence of the id (needs the duplicate-freeness at two indices) is not proved - all solvers give up; the heartbeat "
        "sequencing in topology.go / master_grpc_server.go and the history argument are not decided here. One defect repaired (SetVolumeAvailable ignored read-only "
        "replicas). " + TRUST,
   design="DESIGN.md §4 C11")

CLAIMED["C12"] = dict(
   text="Proof-level kernel of the counter deltas: every place that changes what is registered on a disk reports the change upwards as a delta object, and guard "
        "obligations checked at those calls (on the object handed over) prove that the delta equals the change of the recomputed counts - Disk.doAddOrUpdateVolume "
        "(one more volume exactly when the id was not registered, the remote flag change as +1 / -1 / nothing, one more active volume for a new writable one, nothing "
        "else, no report for an unchanged volume; map size and stored info updated), Disk.AddOrUpdateEcShard / DeleteEcShard (the change of the number of shard ids "
        "registered for the volume), DataNode.DeltaUpdateVolumes (a reported deletion counts only for a registered volume), DataNode.AdjustMaxVolumeCounts (new minus "
        "current maximum, in a delta that holds exactly that disk type); DiskUsageCounts.addDiskUsageCounts adds field-wise, FreeSpace equals the free slot formula, "
        "DiskUsages.getOrCreateDisk returns the one entry of the map for the type.",
   note="The propagation NodeImpl.UpAdjustDiskUsageDelta recurses through the node interface and is abstract (assumed: adds the delta to the node and all ancestors), so "
        "'counts equal the recomputed counts on every level' is the sum of the proved deltas, not proved as a tree invariant; shard bit sets are abstract (popcnt / or / "
        "and-not); UpdateVolumes / UpdateEcShards full-heartbeat diffing, unlink/relink of servers and the active-volume count on read-only flips are not decided. "
        "Two defects repaired (double counting of max volume counts, deletions of unregistered volumes). " + TRUST,
   design="DESIGN.md §4 C12")

CLAIMED["C17"] = dict(
   text="Proof-level kernel (quick tier): ViewFromVisibleIntervals is verified with an inductive loop invariant for any number of visible intervals - every view is a "
        "non-empty part of one visible interval inside the requested range and reads the chunk at exactly the position that interval shows there (same file id, same "
        "position shift), including the overflow cases of offset+size; mergeIntoManifest: the manifest chunk spans exactly from the smallest offset to the furthest end "
        "of the chunks it replaces (inductive min/max invariants); ChunkReadAt.doReadAt on a range no chunk covers: the bytes reported as read are zeros and their number "
        "is the part of the buffer below the file size. MergeIntoVisibles, for any number of old intervals, as a guard obligation at every append of the function: what "
        "is appended to the result is the new chunk's own interval, or a non-empty piece of the old interval being visited that shows the same bytes at the same file "
        "positions and lies completely outside the new chunk's range.",
   note="The MergeIntoVisibles guard replaced a bounded stand-in (at most one old interval, thorough tier only). Not decided: completeness of the overlay (every "
        "uncovered old byte stays visible), the final loop that moves the new interval to its place in start order, doReadAt with chunks (copy offsets), "
        "NonOverlappingVisibleIntervals' sort order and ResolveChunkManifest, doMaybeManifestize batching. One defect repaired (holes not zeroed). " + TRUST,
   design="DESIGN.md §4 C17")

CLAIMED["C04"] = dict(
   text="Proof-level kernel of the copy decision, both offset widths: for the scanner of Compact (VolumeFileScanner4Vacuum.VisitNeedle) and the per-entry closure of "
        "Compact2 (copyDataBasedOnIndexFile) - a record is never copied unless the needle map points at this very record and does not call it deleted (never "
        "resurrects); a live record whose volume TTL, counted from its last-modified time with the TTL unit applied, has not passed is copied exactly once into the new "
        "needle map under its id and size and appended to the new data file (exact 64-bit arithmetic over a ghost clock); the reader's notion of 'still readable' (needle "
        "TTL from the append time, empty blobs) is stated as two further clauses that are refuted and listed as open findings.",
   note="Needle map, destination file and throttle are opaque sinks; makeupDiff (replay of writes that arrived during the compaction; the seeded change C04-m1 lives "
        "there), CommitCompact's renames and the schedule of concurrent writes are not decided here. Two open known findings (compaction and reads disagree on expiry; "
        "empty blobs are dropped), both replayed on the real code. Observation: the TTL product is computed in 32 bits (wraps from 137 years). " + TRUST,
   design="DESIGN.md §4 C04")

CLAIMED["C01"] = dict(
   text="Proof-level kernel of the per-operation step, both offset widths: Volume.doWriteRequest - a write that presents another cookie than the stored record (read at "
        "the offset the map points at) fails and appends nothing and leaves the map alone; an unchanged file appends nothing; otherwise exactly one record is appended "
        "and the map is updated with the needle's id and size unless it already points behind the new record, and a failed append never updates the map; "
        "doDeleteRequest - a tombstone is appended and the map entry deleted exactly when the map holds a valid entry, whose size is returned; isFileUnchanged says "
        "unchanged only for a stored record with equal cookie, checksum and data length; Store.WriteVolumeNeedle / DeleteVolumeNeedle reject a read-only volume (resp. one "
        "that allows no deletes) before the volume is touched; readNeedleDataVersion2 accepts every body whose name or mime type fits, also when it ends exactly at the "
        "end of the body.",
   note="The data file and the needle map are abstract here (record layout: C02; map and counters: C05): the history property is the induction over these steps and is "
        "not proved as such; the cookie checks of the HTTP read/delete handlers, the group-commit worker (the seeded change C01-m2 moves the read-only guard there and is "
        "caught at the store), fsync and concurrency are not decided. One open known finding (an 'unchanged' write drops new metadata). " + TRUST,
   design="DESIGN.md §4 C01")

CLAIMED["C22"] = dict(
   text="Proof-level kernel: SealedBuffers.SealBuffer is verified with an inductive loop invariant for any number of sealed buffers - every sealed buffer takes over "
        "bytes, valid length and time range of its successor, the last takes the buffer being sealed, and the writer gets back the bytes of the buffer that was the "
        "oldest; LogBuffer.ReadFromBuffer on the current buffer (binary search with an inductive invariant over an index with strictly increasing timestamps, entry "
        "timestamps abstract): the bytes handed back start exactly at the first entry newer than the requested time and run to the write position, all slice accesses "
        "of the sealed-buffer scan are in range; LogBuffer.AddToBuffer serialises an entry that carries a timestamp strictly above the previous event's (guard at "
        "the Marshal call).",
   note="Entry timestamps (protobuf decoding) and MemBuffer.locateByTs are abstract (assumed: the search in a sealed buffer ends inside its valid length); the disk "
        "fallback is covered only by the guard that ReadEachLogEntry hands on events strictly newer than the resume time; flushing, notification and every schedule are not decided here. One defect repaired "
        "(the writer was handed a sealed buffer's array). " + TRUST,
   design="DESIGN.md §4 C22")

CLAIMED["C18"] = dict(
   text="Proof-level guard obligations on the real filer functions (store opaque): Filer.UpdateEntry reaches the store only for an update that keeps the kind (file vs "
        "directory) and fails without touching the store otherwise; ensureParentDirecotryEntry succeeds for a level only if what is stored at that path is a directory "
        "(an existing entry must have the directory bit - any other mode, e.g. a symlink, is refused) and what it inserts is a directory entry for exactly that path, "
        "after the level above was ensured successfully; CreateEntry inserts only after the parents were ensured successfully; DeleteEntryMetaAndData removes a "
        "directory entry only after the removal of its children succeeded (a refused non-recursive delete of a non-empty directory changes nothing); "
        "FilerServer.AtomicRenameEntry starts the move (opens the store transaction) only if the new parent neither is the renamed entry nor lies below it "
        "(util.FullPath.Child verified, path containment as util.IsPathInDir); FilerServer.moveSelfEntry creates under the new path an entry with the moved entry's "
        "attributes, chunks, extended attributes, content, remote info and hard-link identity, and removes the old entry only after that succeeded.",
   note="Guard obligations (order and arguments of calls), not a proof of the tree invariant over histories; the store implementations, transactions, the move itself "
        "(moveEntry: whole subtree, no loss or duplication) and the listing loop inside doBatchDeleteFolderMetaAndData (assumed not to modify the entry) are not decided here; memory safety of the abstracted "
        "functions is assumed. " + TRUST,
   design="DESIGN.md §4 C18")
CLAIMED["C21"] = dict(
   text="Proof-level kernel: FilerStoreWrapper.DeleteHardLink releases exactly one name - the stored counter goes down by one (32-bit exact), the shared record is deleted "
        "when no name is left and re-encoded and written back otherwise, nothing is written when the record is missing; handleUpdateToHardLinks always refreshes the "
        "shared record of a hard linked entry and, when the name belonged to another identity, releases exactly that old identity (guard at the DeleteHardLink call: the "
        "id passed is the existing entry's); the wrapper's UpdateEntry runs that step on every path before the per-name entry is written, and writes the per-name "
        "entry exactly when it succeeded. Rename (guards on FilerServer.moveSelfEntry): the entry created under the new name carries the hard-link identity of the "
        "moved entry, counted as one more name until the old name is removed, and the old name is removed only after the new one was created.",
   note="protobuf encoding of the shared record is abstract (kvCounter ghost function), the key/value store and the per-name stores are opaque; link counting across "
        "histories (who increments on link creation) and FUSE link creation are not decided. One defect repaired (a rename dropped the hard-link identity of the "
        "renamed name and decremented the counter of the others). " + TRUST,
   design="DESIGN.md §4 C21")

CLAIMED["C25"] = dict(
   text="Proof-level guard obligation on the real FilerServer.saveMetaData (HTTP, lookups and storing abstracted; the chunk loop carries an inductive invariant for any "
        "number of uploaded chunks): where the chunk list is handed on, every uploaded chunk has been shifted by exactly the recorded file size minus the uploaded bytes "
        "- i.e. an append places the new data at the size the file had before and grows the recorded size by the uploaded bytes, a plain write shifts nothing and "
        "records exactly the uploaded bytes (exact 64-bit arithmetic). And on FilerServer.uploadReaderToChunks (the chunk uploads in goroutines abstracted, the "
        "reading loop followed): an error of the request body - as opposed to its end - is returned as an error, so a body that fails part-way is not committed; "
        "content is kept in the entry itself only from a first read that came back shorter than a chunk, i.e. from an exhausted body.",
   note="The offset arithmetic of saveMetaData, the error path and the inline decision of the body reading loop: which bytes go into which chunk, the upload RPCs, "
        "'current end of the file' as max(chunk end, recorded size) are not decided. Two defects repaired (a body that failed part-way was committed as a truncated "
        "file; a body longer than one chunk was cut to its first chunk when the inline limit exceeds the chunk size). Assumed: a looked-up entry is "
        "decoded afresh (shares no chunk array with the request), lookups and query parsing do not modify the uploaded chunks, stored sizes are below 2^61; memory "
        "safety of the abstracted function is assumed. " + TRUST,
   design="DESIGN.md §4 C25")

CLAIMED["C19"] = dict(
   text="Proof-level guard obligations on the real refill loops (the rounds themselves - store listing, callbacks - abstracted; inductive invariants tie the loop "
        "variables to what the previous round returned): Filer.doListValidEntries (refill after expired entries) and Filer.StreamListDirectoryEntries (refill after "
        "entries that did not match a pattern) pass the caller's start name, inclusive flag and limit to the first round unchanged, and every further round continues "
        "exclusively after the last name the previous round reached, asks for exactly the number of entries still missing, and only happens after a successful round; "
        "on success nothing is missing any more; FilerStoreWrapper.prefixFilterEntries continues every store listing exclusively after the name the previous store "
        "listing returned. One page of a listing in the leveldb, leveldb2 and leveldb3 stores (ListDirectoryPrefixedEntries; iterator, key codec and decoder "
        "abstract): at most limit entries reach the callback and the name returned for continuing is the name of the last entry built for the callback.",
   note="Order, exactness and duplicate-freeness of the rounds themselves (key order of the leveldb iterator, the other store implementations, "
        "doListDirectoryEntries' expiry callback, filepath.Match) are assumed; ListDirectoryEntries' limit+1 / hasMore arithmetic and the last-delivered-name question "
        "when prefixFilterEntries stops in the middle of a page are not decided. One defect repaired (refill restarted after the first page: non-termination). " + TRUST,
   design="DESIGN.md §4 C19")

CLAIMED["C33"] = dict(
   text="Proof-level safety kernel of the clause 'decompressing arbitrary (including malformed) input never crashes the process', for every input: ungzipData, "
        "DecompressData, MaybeDecompressData, IsGzippedContent (exact magic-byte test; input that is not gzip is handed back unchanged with UnsupportedCompression), "
        "the HTTP read helpers of the chunk download path Get, ReadUrl, ReadUrlAsStream, ReadUrlAsReaderCloser (a gzip reader is read from and closed only if "
        "gzip.NewReader produced one), Decrypt (nonce sliced off only after the length check) and readEncryptedUrl (the decrypted, decompressed chunk is cut to the "
        "requested range only if long enough). Obligations are the preconditions of the library calls (reading from / closing a nil *gzip.Reader dereferences it) and "
        "the slice bounds. Sending side of the round trip, as guard obligations on doUploadData: what is encrypted is clear data (the input, or the decompressed "
        "input when it arrived compressed), an encrypted upload carries no name, mime, pairs or gzip flag, a plain upload carries the caller's name and pairs, url "
        "and token are the caller's.",
   note="The round trip 'fetched back as exactly the original bytes' is over gzip, AES-GCM, multipart encoding and HTTP (libraries and two processes) and is not "
        "decided; nor are doUploadData's compression heuristics. Assumed library contracts (listed in the evidence): gzip.NewReader returns a nil reader with its "
        "error; net/http hands out a real body; cipher.NewGCM returns an AEAD or an error; NonceSize is non-negative. The HTTP client and the callback are opaque "
        "(nosafety on the four helpers: only the library preconditions are checked there). Two defects repaired (malformed gzip header crashed ungzipData; a "
        "malformed gzip response body crashed all four read helpers). " + TRUST,
   design="DESIGN.md §4 C33")

CLAIMED["C40"] = dict(
   text="Proof-level guard obligations on the real fan-out code of the volume server that receives a write or delete (store, HTTP and the goroutine fan-out abstracted): "
        "ReplicatedWrite / ReplicatedDelete look the other locations up first (a failed lookup fails the request before anything is written), apply the operation "
        "locally with the request's volume id and needle, forward only after a successful local operation, hand exactly the looked-up locations to the fan-out, and "
        "report success only if the fan-out succeeded (a failed replica delete also reports size 0); getWritableRemoteReplications never lists the server itself and "
        "refuses a volume whose known locations are fewer than its copy count; the per-replica request (ReplicatedWrite$1 / ReplicatedDelete$1) is marked type=replicate, "
        "carries the needle's TTL, its last-modified time exactly when it has one (decimal), the chunk-manifest flag exactly when set, the needle's own data slice, its "
        "compression flag, the rebuilt pair map and the caller's token, and is never encrypted; the delete goes to the same path on the replica with the caller's token.",
   note="Assumed (trusted): distributedOperation (goroutines and a channel: calls the closure once per location and returns nil exactly when all returned nil) and "
        "DistributedOperationResult.Error. One open known finding (doUploadData sends a detected mime type for a needle that has none: the replica's copy gets a "
        "mime type the first server's copy does not have; replayed). Not decided: that the replica decodes the request into the same needle (name and mime strings handed to UploadData, the "
        "receiving handler's parsing), the completeness direction of the location list (every non-self location is included), concurrent writers. " + TRUST,
   design="DESIGN.md §4 C40")

CLAIMED["C28"] = dict(
   text="Proof-level kernel of the multipart clause 'a completed multipart object equals the concatenation of its parts in ascending part-number order, for any part "
        "numbers 1..10000': partNumberOf reads the part number back from a stored part's name (0 for anything else); lemma: the name a part is uploaded under "
        "(fmt.Sprintf(\"%04d.part\", k)) reads back as k for every k in 1..10000 (theory of strings, including the five-digit name of part 10000); the comparison "
        "completeMultipartUpload sorts the listed parts by is 'part number less than'; completeMultipartUpload sorts before it concatenates, appends every chunk of "
        "every part at the running offset, the running offset is the end of the chunk appended last and starts at 0 (loop invariants, guard at every append), and "
        "hands exactly that list to the object's entry. Streaming-signed PUT and part upload (guards on PutObjectHandler and PutObjectPartHandler): what goes to "
        "the filer for a request with an aws-chunked body is read through the decoding reader, set up without error - or nothing is stored.",
   note="sort.SliceStable (library) is assumed to sort by the comparison it is given; the filer listing, mkFile and the upload directory are opaque; part numbers are "
        "compared for names without a sign character. Not decided: the aws-chunked decoder itself, copy, range reads through S3 (C32 decides the volume server's "
        "range answers), batch delete, the order of the chunks inside one part (taken as listed). One open known finding (the single-object delete asks the filer for a "
        "recursive delete: deleting a key that is also a prefix of other keys removes those too; replayed in two parts). Two defects repaired (part 10000 was concatenated before part 1001; "
        "a streaming-signed part was stored with its framing when no identities are configured). "
        + TRUST,
   design="DESIGN.md §4 C28")

CLAIMED["C14"] = dict(
   text="Proof-level guard obligations on the master's real vacuum round for one volume (Topology.vacuumOneVolumeLayout, batchVacuumVolumeCommit; the RPC fan-outs "
        "abstracted): a read-only volume is skipped; compaction is asked for only after a positive check, on the replica list the check returned; commit runs only "
        "after a compaction that succeeded on every replica of that list, cleanup only after one that did not, both on that same list and volume id (so commit never "
        "runs on a replica whose compaction did not succeed); every abandoned compaction is followed by offering the volume back to the writable list, once per "
        "replica (loop invariants over the call counters), where SetVolumeAvailable (C11) admits it only if it still qualifies; batchVacuumVolumeCommit asks every "
        "replica of the list and makes the volume available again only if every commit succeeded, then once per replica with the round's volume id.",
   note="Assumed (trusted, goroutines / channels / timers): batchVacuumVolumeCheck and batchVacuumVolumeCompact return true only if every replica asked answered in "
        "time and positively, and Compact takes the volume out of the writable list; batchVacuumVolumeCleanup. Not decided: replica content after a partial commit "
        "failure (the volume then stays out of the writable list), concurrent heartbeats and writes during the round, the volume servers' side (C04). One defect "
        "repaired (a failed compaction left the volume unwritable for good). " + TRUST,
   design="DESIGN.md §4 C14")

CLAIMED["C10"] = dict(
   text="Proof-level kernel of volume growth over an abstract node tree (free slots, child counts and ids of a node are uninterpreted functions of the node): "
        "findEmptySlotsForOneVolume asks for x+1 data centers of the topology, y+1 racks of the main data center and z+1 servers of the main rack (guard at every "
        "pick), reserves one server in every other rack and every other data center, and on success returns exactly 1+x+y+z servers (loop invariants), any failed "
        "pick or reservation being an error; the three filters accept a node as the main data center / rack / server only if it is the requested one when one is "
        "requested and has at least y+z+1 free slots and y+1 racks / z+1 free slots and z+1 servers / one free slot; findAndGrow grows exactly on the servers "
        "found, with the id NextVolumeId returned, only if both succeeded; grow allocates the volume on every server in turn and registers a server (volume id and "
        "replica placement of the request) only after its allocation succeeded, any refusal being an error.",
   note="Assumed (trusted): the weighted random pick NodeImpl.PickNodesByWeight (on success numberOfNodes distinct children, the first accepted by the filter, the "
        "others with a free slot) and ReserveOneVolume (a server below the node) - distinctness of the 1+x+y+z servers rests on these two; AllocateVolume (RPC), "
        "AddOrUpdateVolume, RegisterVolumeLayout. Not decided: the counting parts of the filters (racks / servers with enough free slots among the children), "
        "concurrent growth, the slots freed by a growth that fails half way. " + TRUST,
   design="DESIGN.md §4 C10")

CLAIMED["C03"] = dict(
   text="Proof-level kernel of the reopening step over the ghost file model, for every index file size (both offset widths): CheckAndFixVolumeDataIntegrity, run on "
        "every volume load, truncates the index file only to a non-negative multiple of the entry size that is not larger than the file (guard at every Truncate), "
        "and fails only for a reason other than a torn last entry - the size cannot be read, a truncation fails, or one of the last records does not check out "
        "against the data file; verifyIndexFileIntegrity succeeds exactly for a readable size that is a multiple of the entry size. So an index file that kept any "
        "prefix of an interrupted 16/17-byte append does not by itself fail the load. verifyNeedleIntegrity cuts the data file only behind the record an index entry "
        "names (offset plus padded on-disk size, and only if the file is longer): never into or before an indexed record.",
   note="The crash-point quantification itself (every prefix of both files, every interleaving of the two appends) is outside a per-function contract: decided is "
        "the index-side tolerance only. Assumed: util.GetFileSize and os.File.Truncate over the ghost file; doCheckAndFixVolumeData (the per-record check against "
        "the data file, which also cuts an orphan record off the data file) is trusted here. Not decided: that every fully written blob reads back (C01/C02/C05 "
        "decide the per-operation steps), the data-file side of a torn record. One defect repaired (a torn last index entry crashed the volume server on restart; "
        "replayed). " + TRUST,
   design="DESIGN.md §4 C03")

NA = {
 "C15":"planners over string-keyed map snapshots; needs multiset/cardinality reasoning over maps that the generator cannot do unbounded",
 "C16":"same reason as C15: planners over map snapshots and shard bitmaps across many servers",
 "C27":"recursive listing driven by gRPC stream callbacks with mutable cursor state across recursion over an external tree",
 "C29":"containment depends on path normalisation in gorilla/mux, net/url, filepath and the filer; textual prefix contracts would be vacuous",
 "C30":"the dirty-page interval lists (ContinuousIntervals.AddInterval / removeList over linked lists of byte spans) were tried under a bounded contract: 22 minutes per run with refutations that could not be resolved against the real code, so nothing is claimed (DESIGN §4 C30); the POSIX-model equivalence over write/flush histories is beyond a per-function contract",
 "C38":"a schedule (linearizability) property; the generator is sequential",
 "C39":"unbounded tree of pointer maps with recursive deletion; needs inductive heap predicates",
}

ALL = ["C%02d" % i for i in range(1, 41)]
PENDING_REASON = "kernel identified in DESIGN.md §4 but its contracts are not built yet in this revision; not claimed until they discharge with zero alarms"

checks = []
for pid in sorted(CLAIMED):
    c = CLAIMED[pid]
    checks.append({
        "property_id": pid,
        "quick_cmd": "./check %s quick" % pid,
        "thorough_cmd": "./check %s thorough" % pid,
        "evidence_file": "/verif/evidence/%s.json" % pid,
        "replay_cmd_template": "./bin/gcv replay {path}",
        "engine": "gcv",
        "level_claimed": {"category": "proof", "text": c["text"], "design_ref": c["design"]},
        "level_note": c["note"],
        "technique": "contract-based deductive verification: weakest-precondition style VCs generated from go/ssa of the real functions against //@ contracts, discharged by z3/cvc5; counterexamples replayed on the real code with go test -overlay",
    })

na = [{"property_id": k, "reason": v} for k, v in sorted(NA.items())]
for pid in ALL:
    if pid not in CLAIMED and pid not in NA:
        na.append({"property_id": pid, "reason": PENDING_REASON})
na.sort(key=lambda e: e["property_id"])

manifest = {
 "version": 1,
 "setup_cmd": "./setup.sh",
 "hooks": {
   "guard": "verif",
   "enable": "Go build tag 'verif': contracts and ghost lemmas live in weed/<pkg>/contracts_verif.go (//go:build verif); gcv loads /repo with -tags=verif[,5BytesOffset]; replays run go test -tags verif -overlay",
   "baseline_off_cmd": "cd /repo && GOFLAGS=-mod=mod GOPROXY=off GOSUMDB=off go test -vet=off -count=1 -timeout 25m ./...",
   "source_commits": hook_commits,
   "add_only": True,
 },
 "engines": [{"name": "gcv", "path": "/verif/gcv", "serves_properties": sorted(CLAIMED),
              "kind_free_text": "self-built VC generator over go/ssa of the real functions + contracts in //@ comments; obligations discharged by z3 4.8.12 / z3 5.1.0 / cvc5 1.0.3"}],
 "checks": checks,
 "notes": "Contract-based deductive verification of the real code; see DESIGN.md. known_findings.json lists fixed defects (fix: commits in /repo) and open findings.",
 "not_applicable": na,
}
json.dump(manifest, open("MANIFEST.json", "w"), indent=1)
print("claimed:", sorted(CLAIMED), "n/a:", len(na))
