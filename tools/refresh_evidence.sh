#!/bin/sh
# Re-runs the quick check of every claimed property against /repo as it is and leaves the
# evidence files of exactly those runs in /verif/evidence (run before committing evidence).
cd "$(dirname "$0")/.." || exit 3
rc=0
for id in $(jq -r '.checks[].property_id' MANIFEST.json); do
  out=$(GCV_STRICT=1 timeout 1800 ./check "$id" quick 2>&1); code=$?
  echo "$out" | tail -1 | cut -c1-200
  [ $code -ne 0 ] && { echo "  -> exit $code for $id"; rc=1; }
done
exit $rc
