#!/bin/sh
# builds the verifier from vendored sources only (offline)
cd "$(dirname "$0")/gcv" || exit 1
mkdir -p ../bin
GOFLAGS=-mod=vendor GOPROXY=off GOSUMDB=off GOTOOLCHAIN=local go build -o ../bin/gcv ./cmd/gcv || exit 1
cd .. && GOFLAGS=-mod=mod GOPROXY=off GOSUMDB=off GOTOOLCHAIN=local ./bin/gcv warm -repo /repo -verif /verif
