package main

// Counterexample replay on the real code. The solver's model is turned into concrete Go
// inputs; a generated in-package test (injected with `go test -overlay`, nothing is written to
// /repo) calls the real function and compares what it returns (or whether it panics) with what
// the verifier predicted for those inputs. Agreement means the real code produces exactly the
// outputs for which the violated clause is false.

import (
	"bufio"
	"encoding/json"
	"fmt"
	"go/types"
	"io"
	"os"
	"os/exec"
	"path/filepath"
	"strconv"
	"strings"
	"time"

	"golang.org/x/tools/go/ssa"
)

type modelSession struct {
	cmd *exec.Cmd
	in  io.WriteCloser
	out *bufio.Reader
}

func newModelSession(body string, timeoutMs int) (*modelSession, Verdict) {
	cmd := exec.Command(solverPath("z3-new"), "-in")
	in, _ := cmd.StdinPipe()
	outp, _ := cmd.StdoutPipe()
	if err := cmd.Start(); err != nil {
		return nil, Unknown
	}
	ms := &modelSession{cmd: cmd, in: in, out: bufio.NewReader(outp)}
	fmt.Fprintf(in, "(set-option :timeout %d)\n(set-option :model.completion true)\n", timeoutMs)
	io.WriteString(in, body)
	io.WriteString(in, "(check-sat)\n")
	type rl struct {
		line string
		err  error
	}
	ch := make(chan rl, 1)
	go func() {
		l, e := ms.out.ReadString('\n')
		ch <- rl{l, e}
	}()
	var line string
	var err error
	select {
	case r := <-ch:
		line, err = r.line, r.err
	case <-time.After(time.Duration(timeoutMs+5000) * time.Millisecond):
		// the solver ignored its timeout: give up on re-deriving a model
		ms.close()
		return nil, Unknown
	}
	if err != nil {
		ms.close()
		return nil, Unknown
	}
	switch strings.TrimSpace(line) {
	case "sat":
		return ms, Sat
	case "unsat":
		ms.close()
		return nil, Unsat
	}
	ms.close()
	return nil, Unknown
}

func (ms *modelSession) close() {
	ms.in.Close()
	ms.cmd.Process.Kill()
	ms.cmd.Wait()
}

// value evaluates one term in the model; returns the printed value ("" on error).
func (ms *modelSession) value(term string) string {
	fmt.Fprintf(ms.in, "(get-value (%s))\n", term)
	// read one balanced s-expression
	depth := 0
	var b strings.Builder
	started := false
	inStr := false
	for {
		c, err := ms.out.ReadByte()
		if err != nil {
			return ""
		}
		b.WriteByte(c)
		if c == '"' {
			inStr = !inStr
		}
		if inStr {
			continue
		}
		if c == '(' {
			depth++
			started = true
		} else if c == ')' {
			depth--
			if started && depth == 0 {
				break
			}
		}
	}
	s := strings.TrimSpace(b.String())
	if strings.HasPrefix(s, "(error") {
		return ""
	}
	// ((term value))
	s = strings.TrimSuffix(strings.TrimPrefix(s, "(("), "))")
	// strip the echoed term: value is the last s-expression
	return lastSexp(s)
}

func lastSexp(s string) string {
	s = strings.TrimSpace(s)
	if s == "" {
		return ""
	}
	if s[len(s)-1] == ')' {
		depth := 0
		for i := len(s) - 1; i >= 0; i-- {
			if s[i] == ')' {
				depth++
			} else if s[i] == '(' {
				depth--
				if depth == 0 {
					return s[i:]
				}
			}
		}
		return s
	}
	if s[len(s)-1] == '"' {
		for i := len(s) - 2; i >= 0; i-- {
			if s[i] == '"' && (i == 0 || s[i-1] != '"') {
				return s[i:]
			}
		}
	}
	i := strings.LastIndexAny(s, " \n\t")
	return s[i+1:]
}

func parseSMTInt(v string) (int64, bool) {
	v = strings.TrimSpace(v)
	neg := false
	if strings.HasPrefix(v, "(-") {
		neg = true
		v = strings.TrimSpace(strings.TrimSuffix(strings.TrimPrefix(v, "(-"), ")"))
	}
	u, err := strconv.ParseUint(v, 10, 64)
	if err != nil {
		return 0, false
	}
	if neg {
		return -int64(u), true
	}
	return int64(u), true
}

func parseSMTBig(v string) (string, bool) {
	v = strings.TrimSpace(v)
	if strings.HasPrefix(v, "(-") {
		inner := strings.TrimSpace(strings.TrimSuffix(strings.TrimPrefix(v, "(-"), ")"))
		if _, err := strconv.ParseUint(inner, 10, 64); err != nil {
			return "", false
		}
		return "-" + inner, true
	}
	if _, err := strconv.ParseUint(v, 10, 64); err != nil {
		return "", false
	}
	return v, true
}

func parseSMTString(v string) (string, bool) {
	v = strings.TrimSpace(v)
	if len(v) < 2 || v[0] != '"' {
		return "", false
	}
	body := v[1 : len(v)-1]
	body = strings.ReplaceAll(body, `""`, `"`)
	var out []byte
	for i := 0; i < len(body); i++ {
		if strings.HasPrefix(body[i:], `\u{`) {
			j := strings.Index(body[i:], "}")
			if j > 0 {
				n, err := strconv.ParseUint(body[i+3:i+j], 16, 32)
				if err == nil && n < 256 {
					out = append(out, byte(n))
					i += j
					continue
				}
			}
		}
		out = append(out, body[i])
	}
	return string(out), true
}

// ---------- building Go inputs ----------

type replayGen struct {
	x       *Exec
	ms      *modelSession
	pkg     *types.Package
	imports map[string]string // path -> name
	pre     []string          // statements executed before the call
	nvar    int
	fail    string
	decl    map[string]bool // SMT symbols declared in the VC
}

func (g *replayGen) qual(p *types.Package) string {
	if p == g.pkg {
		return ""
	}
	g.imports[p.Path()] = p.Name()
	return p.Name()
}

func (g *replayGen) typeStr(t types.Type) string { return types.TypeString(t, g.qual) }

func (g *replayGen) heapTerm(key, leafSort string) string {
	name := "H0_" + g.x.heapSym(key)
	if !g.decl[name] {
		return ""
	}
	return name
}

func (g *replayGen) intLit(v string, t types.Type) string {
	b, ok := parseSMTBig(v)
	if !ok {
		g.fail = "unparsable integer " + v
		return "0"
	}
	return g.typeStr(t) + "(" + b + ")"
}

// valueOf renders the value of type t whose leaves are given as SMT terms.
func (g *replayGen) valueOf(t types.Type, leaves []string, depth int) (string, int) {
	if depth > 6 {
		g.fail = "value too deep"
		return "nil", len(flatten(t))
	}
	switch u := t.Underlying().(type) {
	case *types.Basic:
		v := g.ms.value(leaves[0])
		switch {
		case u.Info()&types.IsInteger != 0:
			return g.intLit(v, t), 1
		case u.Info()&types.IsBoolean != 0:
			return g.typeStr(t) + "(" + v + ")", 1
		case u.Info()&types.IsString != 0:
			s, ok := parseSMTString(v)
			if !ok {
				g.fail = "unparsable string " + v
			}
			return g.typeStr(t) + "(" + strconv.Quote(s) + ")", 1
		}
		g.fail = "unsupported basic type " + t.String()
		return "0", 1
	case *types.Pointer:
		ref, ok := parseSMTInt(g.ms.value(leaves[0]))
		if !ok {
			g.fail = "unparsable reference"
			return "nil", 1
		}
		if ref == 0 {
			return "nil", 1
		}
		return g.objectAt(u.Elem(), ref, depth), 1
	case *types.Slice:
		arr, _ := parseSMTInt(g.ms.value(leaves[0]))
		off, _ := parseSMTInt(g.ms.value(leaves[1]))
		n, _ := parseSMTInt(g.ms.value(leaves[2]))
		c, _ := parseSMTInt(g.ms.value(leaves[3]))
		if arr == 0 {
			return "nil", 4
		}
		if n > 1<<16 || c > 1<<20 || n < 0 || c < n {
			g.fail = fmt.Sprintf("slice too large to construct (len %d cap %d)", n, c)
			return "nil", 4
		}
		els := flatten(u.Elem())
		if len(els) != 1 || els[0].Sort != SInt {
			g.fail = "slice of non-integer elements"
			return "nil", 4
		}
		h := g.heapTerm("E|"+typeKey(u.Elem())+"|", SInt)
		g.nvar++
		name := fmt.Sprintf("s%d", g.nvar)
		g.pre = append(g.pre, fmt.Sprintf("%s := make(%s, %d, %d)", name, g.typeStr(t), n, c))
		if h != "" {
			for i := int64(0); i < n; i++ {
				v := g.ms.value(fmt.Sprintf("(select (select %s %d) %d)", h, arr, off+i))
				if b, ok := parseSMTBig(v); ok && b != "0" {
					g.pre = append(g.pre, fmt.Sprintf("%s[%d] = %s(%s)", name, i, g.typeStr(u.Elem()), b))
				}
			}
		}
		return name, 4
	case *types.Struct:
		var parts []string
		k := 0
		for i := 0; i < u.NumFields(); i++ {
			f := u.Field(i)
			nl := len(flatten(f.Type()))
			if f.Name() == "_" {
				k += nl
				continue
			}
			if f.Pkg() != nil && f.Pkg() != g.pkg && !f.Exported() {
				// unexported field of a foreign struct: cannot be set; leave zero
				k += nl
				continue
			}
			s, _ := g.valueOf(f.Type(), leaves[k:k+nl], depth+1)
			parts = append(parts, f.Name()+": "+s)
			k += nl
		}
		return g.typeStr(t) + "{" + strings.Join(parts, ", ") + "}", k
	case *types.Interface:
		tag, _ := parseSMTInt(g.ms.value(leaves[0]))
		if tag == 0 {
			return "nil", 2
		}
		g.fail = "non-nil interface input"
		return "nil", 2
	case *types.Map, *types.Chan, *types.Signature:
		ref, _ := parseSMTInt(g.ms.value(leaves[0]))
		if ref == 0 {
			return "nil", 1
		}
		g.fail = "map/chan/func input"
		return "nil", 1
	case *types.Array:
		var parts []string
		k := 0
		for i := 0; i < int(u.Len()); i++ {
			nl := len(flatten(u.Elem()))
			s, _ := g.valueOf(u.Elem(), leaves[k:k+nl], depth+1)
			parts = append(parts, s)
			k += nl
		}
		return g.typeStr(t) + "{" + strings.Join(parts, ", ") + "}", k
	}
	g.fail = "unsupported input type " + t.String()
	return "nil", len(flatten(t))
}

// objectAt builds &T{...} from the entry heap at reference ref.
func (g *replayGen) objectAt(elem types.Type, ref int64, depth int) string {
	root := "F|" + typeKey(elem)
	var leaves []string
	for _, lf := range flatten(elem) {
		h := g.heapTerm(root+"|"+lf.Path, lf.Sort)
		if h == "" {
			switch lf.Sort {
			case SBool:
				leaves = append(leaves, "false")
			case SStr:
				leaves = append(leaves, `""`)
			default:
				leaves = append(leaves, "0")
			}
			continue
		}
		leaves = append(leaves, fmt.Sprintf("(select %s %d)", h, ref))
	}
	if _, isStruct := elem.Underlying().(*types.Struct); isStruct {
		s, _ := g.valueOf(elem, leaves, depth+1)
		return "&" + s
	}
	s, _ := g.valueOf(elem, leaves, depth+1)
	g.nvar++
	name := fmt.Sprintf("p%d", g.nvar)
	g.pre = append(g.pre, fmt.Sprintf("%s := %s", name, s))
	return "&" + name
}

// ---------- the replay itself ----------

func tryReplay(o *runOpts, fr *FuncResult, ob *Oblig, vals map[string]string) ReplayResult {
	con := fr.Contract
	fn := con.Fn
	if fn == nil || ob.X == nil {
		return ReplayResult{Note: "no function to replay"}
	}
	if fn.Parent() != nil {
		return ReplayResult{Note: "closures cannot be called from a test"}
	}
	body := obligBody(ob)
	ms, v := newModelSession(body, 20000)
	if v != Sat {
		return ReplayResult{Note: "model could not be re-derived for replay (" + v.String() + ")"}
	}
	defer ms.close()
	g := &replayGen{x: ob.X, ms: ms, pkg: fn.Pkg.Pkg, imports: map[string]string{}, decl: map[string]bool{}}
	for _, e := range ob.PC.Entries() {
		if e.Kind == 0 {
			g.decl[e.Name] = true
		}
	}
	// arguments
	var args []string
	k := 0
	for _, p := range fn.Params {
		nl := len(flatten(p.Type()))
		var leaves []string
		for _, iv := range ob.Inputs[k : k+nl] {
			leaves = append(leaves, iv.Term)
		}
		s, _ := g.valueOf(p.Type(), leaves, 0)
		args = append(args, s)
		k += nl
	}
	if g.fail != "" {
		return ReplayResult{Note: "inputs not constructible: " + g.fail}
	}
	// predicted outcome
	wantPanic := ob.Kind == "safety"
	var predicted []string
	var compare []string
	sig := fn.Signature
	if !wantPanic {
		res := sig.Results()
		k := 0
		for i := 0; i < res.Len(); i++ {
			rt := res.At(i).Type()
			nl := len(flatten(rt))
			if k+nl > len(ob.Outputs) {
				break
			}
			outs := ob.Outputs[k : k+nl]
			k += nl
			switch u := rt.Underlying().(type) {
			case *types.Basic:
				v := ms.value(outs[0].Term)
				switch {
				case u.Info()&types.IsInteger != 0:
					if b, ok := parseSMTBig(v); ok {
						predicted = append(predicted, fmt.Sprintf("result%d=%s", i, b))
						compare = append(compare, fmt.Sprintf("if fmt.Sprint(r%d) != %q { diff = append(diff, fmt.Sprintf(\"result%d: real %%v, predicted %s\", r%d)) }", i, b, i, b, i))
					}
				case u.Info()&types.IsBoolean != 0:
					predicted = append(predicted, fmt.Sprintf("result%d=%s", i, v))
					compare = append(compare, fmt.Sprintf("if fmt.Sprint(r%d) != %q { diff = append(diff, fmt.Sprintf(\"result%d: real %%v, predicted %s\", r%d)) }", i, v, i, v, i))
				case u.Info()&types.IsString != 0:
					if s, ok := parseSMTString(v); ok {
						predicted = append(predicted, fmt.Sprintf("result%d=%q", i, s))
						compare = append(compare, fmt.Sprintf("if string(r%d) != %q { diff = append(diff, fmt.Sprintf(\"result%d: real %%q, predicted %%q\", r%d, %q)) }", i, s, i, i, s))
					}
				}
			case *types.Interface:
				tag, ok := parseSMTInt(ms.value(outs[0].Term))
				if ok {
					isNil := tag == 0
					predicted = append(predicted, fmt.Sprintf("result%d==nil:%v", i, isNil))
					compare = append(compare, fmt.Sprintf("if (r%d == nil) != %v { diff = append(diff, fmt.Sprintf(\"result%d: real %%v, predicted nil=%v\", r%d)) }", i, isNil, i, isNil, i))
				}
			case *types.Pointer, *types.Slice, *types.Map:
				ref, ok := parseSMTInt(ms.value(outs[0].Term))
				if ok {
					isNil := ref == 0
					predicted = append(predicted, fmt.Sprintf("result%d==nil:%v", i, isNil))
					compare = append(compare, fmt.Sprintf("if (r%d == nil) != %v { diff = append(diff, fmt.Sprintf(\"result%d: real nil=%%v, predicted nil=%v\", r%d == nil)) }", i, isNil, i, isNil, i))
				}
			}
		}
	}
	if !wantPanic {
		// a replay compares returned values; a clause over the ghost call history, or a function
		// whose model predicts no comparable result, has nothing a replay could confirm
		for _, g := range []string{"ncalls(", "lastarg(", "lastret(", "sinkarg(", "fileByte(", "fileSize("} {
			if strings.Contains(ob.Clause, g) {
				return ReplayResult{Note: "clause is over ghost state (" + strings.TrimSuffix(g, "(") + "): not observable by calling the function"}
			}
		}
		if len(compare) == 0 {
			return ReplayResult{Note: "the model predicts no comparable result value"}
		}
	}
	// the call expression
	var call string
	var rs []string
	for i := 0; i < sig.Results().Len(); i++ {
		rs = append(rs, fmt.Sprintf("r%d", i))
	}
	lhs := ""
	if len(rs) > 0 {
		lhs = strings.Join(rs, ", ") + " := "
	}
	if sig.Recv() != nil {
		call = fmt.Sprintf("%s(%s).%s(%s)", lhs, args[0], fn.Name(), strings.Join(args[1:], ", "))
		if _, isPtr := sig.Recv().Type().(*types.Pointer); isPtr {
			call = fmt.Sprintf("recv := %s\n\t%srecv.%s(%s)", args[0], lhs, fn.Name(), strings.Join(args[1:], ", "))
		}
	} else {
		call = fmt.Sprintf("%s%s(%s)", lhs, fn.Name(), strings.Join(args, ", "))
	}
	var use []string
	for _, r := range rs {
		use = append(use, "_ = "+r)
	}
	// test source
	var src strings.Builder
	fmt.Fprintf(&src, "package %s\n\nimport (\n\t\"fmt\"\n\t\"testing\"\n", fn.Pkg.Pkg.Name())
	for p, n := range g.imports {
		fmt.Fprintf(&src, "\t%s %q\n", n, p)
	}
	fmt.Fprintf(&src, ")\n\nvar _ = fmt.Sprint\n\n// generated by gcv: replay of obligation %s\nfunc TestGcvReplay(t *testing.T) {\n", ob.Name)
	fmt.Fprintf(&src, "\tvar diff []string\n\tpanicked := false\n\tfunc() {\n\t\tdefer func() {\n\t\t\tif r := recover(); r != nil {\n\t\t\t\tpanicked = true\n\t\t\t\tfmt.Println(\"GCV-REPLAY panic:\", r)\n\t\t\t}\n\t\t}()\n")
	for _, p := range g.pre {
		fmt.Fprintf(&src, "\t\t%s\n", p)
	}
	fmt.Fprintf(&src, "\t\t%s\n", strings.ReplaceAll(call, "\n\t", "\n\t\t"))
	for _, u := range use {
		fmt.Fprintf(&src, "\t\t%s\n", u)
	}
	for _, c := range compare {
		fmt.Fprintf(&src, "\t\t%s\n", c)
	}
	fmt.Fprintf(&src, "\t}()\n")
	if wantPanic {
		fmt.Fprintf(&src, "\tif panicked {\n\t\tfmt.Println(\"GCV-REPLAY: reproduced (real code panics on the model's inputs)\")\n\t} else {\n\t\tfmt.Println(\"GCV-REPLAY: not reproduced (no panic)\")\n\t}\n}\n")
	} else {
		fmt.Fprintf(&src, "\tif panicked {\n\t\tfmt.Println(\"GCV-REPLAY: not reproduced (unexpected panic)\")\n\t} else if len(diff) == 0 {\n\t\tfmt.Println(\"GCV-REPLAY: reproduced (real code returns the predicted, clause-violating outputs)\")\n\t} else {\n\t\tfmt.Println(\"GCV-REPLAY: not reproduced:\", diff)\n\t}\n}\n")
	}
	// run through an overlay
	scratch, err := os.MkdirTemp("", "gcv-replay-")
	if err != nil {
		return ReplayResult{Note: "cannot create scratch dir"}
	}
	defer os.RemoveAll(scratch)
	testSrc := filepath.Join(scratch, "zz_gcv_replay_test.go")
	os.WriteFile(testSrc, []byte(src.String()), 0o644)
	pkgDir := filepath.Join(o.repo, strings.TrimPrefix(fn.Pkg.Pkg.Path(), strings.TrimSuffix(modPath, "/")+"/"))
	ov := map[string]map[string]string{"Replace": {filepath.Join(pkgDir, "zz_gcv_replay_test.go"): testSrc}}
	for f, data := range o.overlay {
		p := filepath.Join(scratch, fmt.Sprintf("ov%d.go", len(ov["Replace"])))
		os.WriteFile(p, data, 0o644)
		ov["Replace"][f] = p
	}
	ovData, _ := json.Marshal(ov)
	ovFile := filepath.Join(scratch, "overlay.json")
	os.WriteFile(ovFile, ovData, 0o644)
	tags := fr.Tags
	cmd := exec.Command("go", "test", "-overlay", ovFile, "-tags", tags, "-vet=off", "-count=1", "-timeout", "60s", "-run", "^TestGcvReplay$", "-v", ".")
	cmd.Dir = pkgDir
	cmd.Env = append(os.Environ(), "GOFLAGS=-mod=mod", "GOPROXY=off", "GOSUMDB=off", "GOTOOLCHAIN=local")
	done := make(chan struct{})
	var out []byte
	go func() { out, _ = cmd.CombinedOutput(); close(done) }()
	select {
	case <-done:
	case <-time.After(8 * time.Minute):
		cmd.Process.Kill()
		<-done
	}
	txt := string(out)
	res := ReplayResult{Attempted: true, TestFile: src.String(), Note: "predicted: " + strings.Join(predicted, " ")}
	for _, l := range strings.Split(txt, "\n") {
		if strings.HasPrefix(l, "GCV-REPLAY") {
			res.Output += l + "\n"
			if strings.HasPrefix(l, "GCV-REPLAY: reproduced") {
				res.Reproduced = true
			}
		}
	}
	if res.Output == "" {
		if len(txt) > 3000 {
			txt = txt[len(txt)-3000:]
		}
		res.Output = txt
	}
	return res
}

var _ *ssa.Function
