package main

// Counterexample replay on the real code via `go test -overlay` (nothing is written to /repo).

func tryReplay(o *runOpts, fr *FuncResult, ob *Oblig, vals map[string]string) ReplayResult {
	return ReplayResult{Attempted: false, Note: "generic replay not available for this function's inputs"}
}
