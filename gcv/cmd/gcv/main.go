package main

import (
	"encoding/json"
	"flag"
	"fmt"
	"os"
	"path/filepath"
	"runtime"
	"runtime/pprof"
	"sort"
	"strconv"
	"strings"
	"time"
)

var exitHook func()

var helperPkgs = []string{"weed/util", "weed/storage/types", "weed/storage/idx"}

type runOpts struct {
	repo, verif string
	tier        string
	seed        int
	timeoutMs   int
	workers     int
	dump        string
	only        string
	verbose     bool
	overlay     map[string][]byte
}

func main() {
	if len(os.Args) < 2 {
		fmt.Fprintln(os.Stderr, "usage: gcv check|func|warm|replay ...")
		os.Exit(2)
	}
	if p := os.Getenv("GCV_PPROF"); p != "" {
		if f, err := os.Create(p); err == nil {
			pprof.StartCPUProfile(f)
			defer pprof.StopCPUProfile()
			exitHook = func() { pprof.StopCPUProfile(); f.Close() }
		}
	}
	switch os.Args[1] {
	case "check":
		cmdCheck(os.Args[2:])
	case "warm":
		cmdWarm(os.Args[2:])
	case "selftest":
		cmdSelftest(os.Args[2:])
	case "replay":
		cmdReplay(os.Args[2:])
	default:
		fmt.Fprintln(os.Stderr, "unknown command", os.Args[1])
		os.Exit(2)
	}
}

func envInt(name string, def int) int {
	if v := os.Getenv(name); v != "" {
		if n, err := strconv.Atoi(v); err == nil {
			return n
		}
	}
	return def
}

func parseOpts(fs *flag.FlagSet, args []string) (*runOpts, *string) {
	o := &runOpts{}
	prop := fs.String("property", "", "property id (C02...) or 'all'")
	fs.StringVar(&o.repo, "repo", "/repo", "repository root")
	fs.StringVar(&o.verif, "verif", "/verif", "verification root")
	fs.StringVar(&o.tier, "tier", "quick", "quick|thorough")
	fs.StringVar(&o.dump, "dump", "", "directory to dump undischarged VCs")
	fs.StringVar(&o.only, "only", "", "only functions whose key contains this substring")
	fs.BoolVar(&o.verbose, "v", false, "verbose")
	fs.Parse(args)
	if t := os.Getenv("VERIF_TIER"); t == "quick" || t == "thorough" {
		if !isFlagSet(fs, "tier") {
			o.tier = t
		}
	}
	if d := os.Getenv("GCV_OVERLAY"); d != "" {
		o.overlay = loadOverlay(d, o.repo)
	}
	o.seed = envInt("VERIF_SEED", 0)
	o.timeoutMs = 10000
	if o.tier == "thorough" {
		o.timeoutMs = 60000
	}
	o.workers = runtime.NumCPU() / 2
	if o.workers < 2 {
		o.workers = 2
	}
	return o, prop
}

func isFlagSet(fs *flag.FlagSet, name string) bool {
	set := false
	fs.Visit(func(f *flag.Flag) {
		if f.Name == name {
			set = true
		}
	})
	return set
}

// contractsFor selects the contracts that carry the property.
func contractsFor(w *World, prop string) []*Contract {
	// clauses written "for Cxx: ..." belong to those properties only
	if prop != "all" {
		for _, c := range w.Contracts {
			kept := c.Clauses[:0:0]
			for _, cl := range c.Clauses {
				ok := len(cl.Only) == 0
				for _, p := range cl.Only {
					if p == prop {
						ok = true
					}
				}
				if ok {
					kept = append(kept, cl)
				}
			}
			c.Clauses = kept
		}
	}
	var out []*Contract
	for _, c := range w.Contracts {
		if c.Extern || c.has("trusted") || (c.has("inline") && len(c.of("ensures", -1)) == 0) {
			continue // assumed contracts and inline-only loop annotations are not verified on their own
		}
		for _, p := range c.Props {
			if p == prop || prop == "all" {
				out = append(out, c)
				break
			}
		}
	}
	sort.Slice(out, func(i, j int) bool { return out[i].Key() < out[j].Key() })
	return out
}

func pkgsFor(w *World, cons []*Contract) []string {
	set := map[string]bool{}
	for _, c := range cons {
		set[c.Pkg] = true
	}
	for _, h := range helperPkgs {
		set[modPath+h] = true
	}
	// packages named by "uses" flags
	for _, c := range cons {
		if u, ok := c.Flags["uses"]; ok {
			for _, p := range strings.Split(u, ",") {
				set[modPath+p] = true
			}
		}
	}
	var out []string
	for p := range set {
		out = append(out, p)
	}
	sort.Strings(out)
	return out
}

// tagSets: which build-tag configurations a property is verified under.
func tagSets(cons []*Contract, tier string) []string {
	both := false
	for _, c := range cons {
		if c.Flags["tags"] == "both" {
			both = true
		}
	}
	if both {
		return []string{"verif", "verif,5BytesOffset"}
	}
	return []string{"verif"}
}

func runProperty(o *runOpts, prop string) ([]*FuncResult, error) {
	w0, err := LoadContracts(o.repo, specFiles(o.verif), "verif")
	if err != nil {
		return nil, err
	}
	cons := contractsFor(w0, prop)
	if len(cons) == 0 {
		return nil, fmt.Errorf("no contracts carry property %s", prop)
	}
	var all []*FuncResult
	for _, tags := range tagSets(cons, o.tier) {
		w, err := LoadContracts(o.repo, specFiles(o.verif), tags)
		if err != nil {
			return nil, err
		}
		cons := contractsFor(w, prop)
		t0 := time.Now()
		if err := w.LoadSSA(pkgsFor(w, cons), tags, o.overlay); err != nil {
			return nil, err
		}
		if missing := w.Bind(); len(missing) > 0 {
			return nil, fmt.Errorf("contracts name functions that do not exist (tags %s): %s", tags, strings.Join(missing, ", "))
		}
		if o.verbose {
			fmt.Fprintf(os.Stderr, "loaded %d packages for tags %s in %.1fs\n", len(w.Pkgs), tags, time.Since(t0).Seconds())
		}
		flattenCache = map[string][]leaf{} // type layouts differ between build-tag configurations
		x := NewExec(w)
		x.sess = NewSession()
		if os.Getenv("GCV_TRACE") != "" {
			progressHook = func(s *Session) {
				fmt.Fprintf(os.Stderr, "progress: %s queries=%d session=%.1fs restarts=%d paths=%d merged=%d obligs=%d instrs=%d\n", x.curFn, s.nquery, s.total.Seconds(), s.restarts, x.paths, x.merged, len(x.obligs), x.instrs)
			}
		}
		var frs []*FuncResult
		for _, c := range cons {
			if o.only != "" && !strings.Contains(c.Key(), o.only) {
				continue
			}
			if c.Flags["tags"] == "5BytesOffset" && !strings.Contains(tags, "5BytesOffset") {
				continue
			}
			if c.Flags["tags"] == "default" && strings.Contains(tags, "5BytesOffset") {
				continue
			}
			if c.has("thoroughonly") && o.tier != "thorough" && o.only == "" {
				// a slow (typically bounded) check that is part of the thorough tier only
				fmt.Printf("NOTE: %s is checked in the thorough tier only\n", shortKey(c.Key()))
				continue
			}
			fr := x.verify(c)
			frs = append(frs, fr)
			if o.verbose {
				fmt.Fprintf(os.Stderr, "  %-60s paths=%d merged=%d obligs=%d pending=%d %.2fs (session: %d queries %.1fs) %s%s\n", shortKey(c.Key()), fr.Paths, x.merged, len(fr.Obligs), pending(fr), fr.Secs, x.sess.nquery, x.sess.total.Seconds(), fr.Aborted, fr.Vacuous)
			}
		}
		x.sess.Close()
		dischargeAll(frs, o.timeoutMs, o.workers, o.dump)
		// an obligation on which every solver ran out of time is tried once more, alone and with
		// six times the budget, before it is reported: on a loaded machine a timeout says nothing
		retried := map[string]int{}
		for _, fr := range frs {
			for _, ob := range fr.Obligs {
				// (at most two instances per obligation name and eight per run: many timeouts are
				// not a load problem, and the retries are sequential)
				if ob.Res.V == Unknown && ob.PC != nil && os.Getenv("GCV_NORETRY") == "" && retried[ob.Name] < 2 && len(retried) < 8 {
					retried[ob.Name]++
					r := Discharge(obligBody(ob), 6*o.timeoutMs, false)
					if r.V != Unknown {
						r.Solver += "(retry)"
						ob.Res = r
					}
				}
			}
		}
		all = append(all, frs...)
	}
	return all, nil
}

func pending(fr *FuncResult) int {
	n := 0
	for _, ob := range fr.Obligs {
		if !ob.Done {
			n++
		}
	}
	return n
}

func specFiles(verif string) []string {
	fs, _ := filepath.Glob(filepath.Join(verif, "spec", "*.spec"))
	sort.Strings(fs)
	return fs
}

func cmdWarm(args []string) {
	fs := flag.NewFlagSet("warm", flag.ExitOnError)
	o, _ := parseOpts(fs, args)
	w, err := LoadContracts(o.repo, specFiles(o.verif), "verif")
	if err != nil {
		fatalf("%v", err)
	}
	cons := contractsFor(w, "all")
	for _, tags := range []string{"verif", "verif,5BytesOffset"} {
		t0 := time.Now()
		if err := w.LoadSSA(pkgsFor(w, cons), tags, nil); err != nil {
			fatalf("%v", err)
		}
		fmt.Printf("warm: tags=%s packages=%d %.1fs\n", tags, len(w.Pkgs), time.Since(t0).Seconds())
	}
}

// ---------- check ----------

func cmdCheck(args []string) {
	fs := flag.NewFlagSet("check", flag.ExitOnError)
	o, prop := parseOpts(fs, args)
	if *prop == "" {
		fatalf("check: -property required")
	}
	start := time.Now()
	frs, err := runProperty(o, *prop)
	if err != nil {
		fatalf("%v", err)
	}
	code := report(o, *prop, frs, time.Since(start).Seconds())
	if exitHook != nil {
		exitHook()
	}
	os.Exit(code)
}

type evidenceOblig struct {
	Name      string         `json:"name"`
	Tags      string         `json:"tags"`
	Instances int            `json:"instances"`
	Verdict   string         `json:"verdict"`
	Backends  map[string]int `json:"backends"`
	MaxSecs   float64        `json:"max_solver_s"`
	Bounded   int            `json:"bounded_instances,omitempty"`
}

func report(o *runOpts, prop string, frs []*FuncResult, wall float64) int {
	kf := loadKnownFindings(o.verif)
	totalInst, dischargedInst := 0, 0
	var violations []string
	var undecided []string
	var knownLines []string
	assumptions := map[string]bool{}
	bounded := map[string]int{}
	var funcs []map[string]interface{}
	var evObligs []evidenceOblig
	var samples []interface{}
	solverSecs := 0.0
	replayDir := filepath.Join(o.verif, "out", "replay")
	os.MkdirAll(replayDir, 0o755)
	if old, _ := filepath.Glob(filepath.Join(replayDir, prop+"-*.json")); len(old) > 0 {
		for _, f := range old {
			os.Remove(f)
		}
	}

	for _, fr := range frs {
		finfo := map[string]interface{}{"function": shortKey(fr.Name), "tags": fr.Tags, "file": relRepo(o.repo, fr.File), "line": fr.Line,
			"paths": fr.Paths, "returns": fr.Returns, "instructions_executed": fr.Instrs, "obligation_instances": len(fr.Obligs), "trivially_true": fr.Trivial, "exec_s": round3(fr.Secs)}
		if fr.Aborted != "" {
			finfo["undecided"] = fr.Aborted
			undecided = append(undecided, shortKey(fr.Name)+" ["+fr.Tags+"]: "+fr.Aborted)
		}
		if len(fr.Unreached) > 0 {
			finfo["unreached_blocks"] = fr.Unreached
			allowed := 0
			if fr.Contract != nil {
				fmt.Sscanf(fr.Contract.Flags["deadblocks"], "%d", &allowed)
			}
			if len(fr.Unreached) > allowed {
				msg := shortKey(fr.Name) + " [" + fr.Tags + "]: no feasible path reaches the code at line(s) " + strings.Join(fr.Unreached, ", ") + fmt.Sprintf(" (%d blocks, contract expects %d: contradictory precondition or callee contract? state the expected number with the contract flag deadblocks)", len(fr.Unreached), allowed)
				if os.Getenv("GCV_STRICT") != "" {
					// development / evidence refresh: unverified code inside a function under contract is an error
					undecided = append(undecided, "VACUOUS: "+msg)
				} else {
					fmt.Println("NOTE: unverified code: " + msg)
				}
			}
		}
		if fr.Vacuous != "" {
			finfo["vacuous"] = fr.Vacuous
			undecided = append(undecided, shortKey(fr.Name)+" ["+fr.Tags+"]: VACUOUS: "+fr.Vacuous)
		}
		funcs = append(funcs, finfo)
		for n := range fr.Notes {
			assumptions[n] = true
			if strings.HasPrefix(n, "call name never counted") && os.Getenv("GCV_STRICT") != "" {
				// development / evidence refresh: a clause over a call the function never makes
				undecided = append(undecided, "VACUOUS: "+n)
			}
		}
		for n, c := range fr.Bounded {
			bounded[n] += c
		}
		// group instances by name
		byName := map[string][]*Oblig{}
		var order []string
		for _, ob := range fr.Obligs {
			if _, ok := byName[ob.Name]; !ok {
				order = append(order, ob.Name)
			}
			byName[ob.Name] = append(byName[ob.Name], ob)
		}
		for _, name := range order {
			obs := byName[name]
			eo := evidenceOblig{Name: name, Tags: fr.Tags, Instances: len(obs), Backends: map[string]int{}}
			verdict := "discharged"
			var bad *Oblig
			for _, ob := range obs {
				totalInst++
				solverSecs += ob.Res.Secs
				if ob.Res.Secs > eo.MaxSecs {
					eo.MaxSecs = round3(ob.Res.Secs)
				}
				eo.Backends[ob.Res.Solver]++
				if ob.Bounded != "" {
					eo.Bounded++
				}
				switch ob.Res.V {
				case Unsat:
					dischargedInst++
				case Sat:
					if verdict != "refuted" {
						verdict = "refuted"
						bad = ob
					}
				default:
					if verdict == "discharged" {
						verdict = "unknown"
						bad = ob
					}
				}
			}
			eo.Verdict = verdict
			evObligs = append(evObligs, eo)
			if bad == nil {
				continue
			}
			// known finding?
			if f := kf.match(prop, name, fr.Tags); f != nil {
				knownLines = append(knownLines, fmt.Sprintf("KNOWN-FINDING: property=%s %s [%s]", prop, f.What, name))
				totalInst -= len(obs)
				for _, ob := range obs {
					if ob.Res.V == Unsat {
						dischargedInst--
					}
				}
				continue
			}
			rp := writeReplay(o, replayDir, prop, fr, bad, verdict)
			suffix := ""
			if !rp.reproduced {
				suffix = " no-failing-input-found"
			}
			violations = append(violations, fmt.Sprintf("VIOLATION property=%s replay=%s obligation=%s%s", prop, rp.path, name, suffix))
		}
	}
	// samples: a few obligations written out
	for _, fr := range frs {
		for i, ob := range fr.Obligs {
			if len(samples) >= 6 {
				break
			}
			if (i+o.seed)%7 == 0 || len(fr.Obligs) < 3 {
				g := ob.Goal.s
				if len(g) > 400 {
					g = g[:400] + "..."
				}
				samples = append(samples, map[string]string{"obligation": ob.Name, "clause": ob.Text, "goal_smt": g, "verdict": ob.Res.V.String(), "backend": ob.Res.Solver})
			}
		}
	}
	if len(samples) == 0 {
		samples = append(samples, "no obligations generated")
	}
	var as []string
	for a := range assumptions {
		as = append(as, a)
	}
	sort.Strings(as)
	as = append(as, "A2 pointer and slice parameters of one function are distinct objects unless the contract says mayalias",
		"A4 strings are byte strings (code points <= 255)", "A7 method receivers are non-nil",
		"sequential execution: sync primitives are ghost no-ops; interleavings are not explored",
		"termination is not proved unless a decreases clause is discharged")
	var bl []string
	for b, c := range bounded {
		bl = append(bl, fmt.Sprintf("%s (%d paths cut)", b, c))
	}
	sort.Strings(bl)

	ev := map[string]interface{}{
		"property_id": prop, "tier": o.tier, "seed": o.seed, "level": "proof", "wall_s": round3(wall),
		"violations": len(violations),
		"coverage": map[string]interface{}{
			"obligations": totalInst, "discharged": dischargedInst,
			"checker_cmd":  "gcv check -property " + prop + " -tier " + o.tier + " (VCs from go/ssa of /repo, discharged by z3 4.8.12 / z3 5.1.0 / cvc5 1.0.3)",
			"trusted_base": []string{"gcv VC generator (this repository, /verif/gcv)", "golang.org/x/tools/go/ssa v0.29.0 and go/types", "z3 4.8.12, z3 5.1.0, cvc5 1.0.3", "built-in models of append/copy/len/maps/strings/sync/atomic (DESIGN appendix C)"},
			"functions_under_contract": funcs, "obligation_names": evObligs, "bounded": bl,
			"undecided": undecided, "solver_time_s": round3(solverSecs), "samples": samples,
			"known_findings_reported": knownLines,
		},
		"assumptions": as,
	}
	evDir := filepath.Join(o.verif, "evidence")
	if d := os.Getenv("GCV_OVERLAY"); d != "" {
		// a run against patched sources (mutation testing) must not replace the evidence of /repo
		evDir = filepath.Join(d, "evidence")
	}
	if d := os.Getenv("GCV_EVIDENCE_DIR"); d != "" && d != "/dev/null" {
		evDir = d // development runs that must leave /verif/evidence alone
	}
	os.MkdirAll(evDir, 0o755)
	data, _ := json.MarshalIndent(ev, "", " ")
	os.WriteFile(filepath.Join(evDir, prop+".json"), data, 0o644)

	for _, l := range knownLines {
		fmt.Println(l)
	}
	fmt.Printf("property %s tier=%s: %d functions, %d obligation instances, %d discharged, %d violations, %d undecided, %.1fs\n",
		prop, o.tier, len(frs), totalInst, dischargedInst, len(violations), len(undecided), wall)
	for _, u := range undecided {
		fmt.Println("UNDECIDED:", u)
	}
	for _, v := range violations {
		fmt.Println(v)
	}
	if len(violations) > 0 {
		return 1
	}
	if len(undecided) > 0 {
		return 3
	}
	return 0
}

func relRepo(repo, f string) string {
	if r, err := filepath.Rel(repo, f); err == nil && !strings.HasPrefix(r, "..") {
		return r
	}
	return f
}

func round3(f float64) float64 { return float64(int(f*1000+0.5)) / 1000 }

// ---------- replay files ----------

type replayInfo struct {
	path       string
	reproduced bool
}

func writeReplay(o *runOpts, dir, prop string, fr *FuncResult, ob *Oblig, verdict string) replayInfo {
	path := filepath.Join(dir, prop+"-"+sanitizeFile(ob.Name)+".json")
	vals := map[string]string{}
	if ob.Res.V == Sat {
		vals = modelValues(ob.Res.Model, ob.Inputs)
	}
	rp := map[string]interface{}{
		"property": prop, "obligation": ob.Name, "function": shortKey(fr.Name), "tags": fr.Tags, "kind": ob.Kind, "clause": ob.Text, "site": ob.Site,
		"verdict": verdict, "solver": ob.Res.Solver, "solver_reason": ob.Res.Reason, "inputs": vals,
	}
	m := ob.Res.Model
	if len(m) > 20000 {
		m = m[:20000] + "\n...truncated"
	}
	rp["solver_output"] = m
	reproduced := false
	if ob.Res.V == Sat {
		r := tryReplay(o, fr, ob, vals)
		rp["replay"] = r
		reproduced = r.Reproduced
	}
	data, _ := json.MarshalIndent(rp, "", " ")
	os.WriteFile(path, data, 0o644)
	return replayInfo{path: path, reproduced: reproduced}
}

// loadOverlay maps every file under dir (mirroring repo-relative paths) onto the repository path.
func loadOverlay(dir, repo string) map[string][]byte {
	ov := map[string][]byte{}
	filepath.Walk(dir, func(p string, info os.FileInfo, err error) error {
		if err != nil || info.IsDir() {
			return nil
		}
		rel, _ := filepath.Rel(dir, p)
		data, err := os.ReadFile(p)
		if err == nil {
			ov[filepath.Join(repo, rel)] = data
		}
		return nil
	})
	return ov
}
