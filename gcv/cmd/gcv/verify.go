package main

// Per-function verification driver and obligation discharge.

import (
	"context"
	"fmt"
	"go/types"
	"os"
	"regexp"
	"runtime/debug"
	"sort"
	"strconv"
	"strings"
	"time"

	"golang.org/x/tools/go/ssa"
)

type FuncResult struct {
	Contract *Contract
	Name     string
	Tags     string
	Obligs   []*Oblig
	Paths    int
	Returns  int
	Trivial  int
	Notes    map[string]int
	Bounded  map[string]int
	Aborted  string // non-empty: undecided (tool limit / out of subset)
	Vacuous  string
	Unreached []string // source lines of blocks no feasible path entered
	Secs     float64
	Instrs   int
	File     string
	Line     int
}

func (x *Exec) pathKeyDummy() {}

// verify runs the symbolic executor over one function under contract.
func (x *Exec) verify(con *Contract) (fres *FuncResult) {
	start := time.Now()
	fn := con.Fn
	fres = &FuncResult{Contract: con, Name: con.Key(), Tags: x.w.Tags, Notes: map[string]int{}, Bounded: map[string]int{}}
	if fn == nil {
		fres.Aborted = "function not found in loaded packages"
		return
	}
	if p := fn.Pos(); p.IsValid() {
		pp := x.w.Fset.Position(p)
		fres.File, fres.Line = pp.Filename, pp.Line
	}
	x.curFn = shortKey(con.Key())
	x.curCon = con
	x.obligs = nil
	x.paths = 0
	x.trivial = 0
	x.notes = fres.Notes
	x.boundedNotes = fres.Bounded
	x.aborted = ""
	x.visitedBlocks = map[*ssa.BasicBlock]bool{}
	x.sinkHit = map[string]bool{}
	x.seenCalls = map[string]bool{}
	x.instrs = 0
	x.lastArgs = map[string]*Val{}
	x.maxPaths = 4096
	returns := 0

	x.sess.Push()
	defer func() {
		for x.sess.depth > 0 {
			x.sess.Pop()
		}
		if r := recover(); r != nil {
			switch e := r.(type) {
			case unsupported:
				fres.Aborted = "out of subset: " + e.what
			case specError:
				fres.Aborted = "specification error: " + e.msg
			default:
				fres.Aborted = fmt.Sprintf("internal error: %v\n%s", r, debug.Stack())
			}
		}
		fres.Obligs = x.obligs
		fres.Paths = x.paths
		fres.Returns = returns
		fres.Trivial = x.trivial
		fres.Instrs = x.instrs
		fres.Secs = time.Since(start).Seconds()
		if fres.Aborted == "" && x.aborted != "" {
			fres.Aborted = x.aborted
		}
	}()

	st := &State{heap: map[string]*Term{}, declared: map[string]bool{}, assumedR: map[string]bool{}, ghost: map[string]*Term{}, fresh: map[string]bool{}}
	st.heap0 = HeapSnap{m: map[string]*Term{}, epoch: 0}
	st.allocBase = x.declare(st, "ALLOC0", SInt)
	x.assume(st, Ge(st.allocBase, IntLit(1)), "alloc-base")
	x.allocBase0 = st.allocBase

	// symbolic arguments
	var args []*Val
	x.inputs = nil
	names := paramNames(fn.Signature, fn, con)
	env := map[string]*Val{}
	for i, p := range fn.Params {
		v := x.freshTyped(st, "in_"+p.Name(), p.Type())
		args = append(args, v)
		env[names[i]] = v
		for j, lf := range flatten(p.Type()) {
			ls := x.valLeaves(st, v, p.Type())
			x.inputs = append(x.inputs, InputVar{Name: p.Name() + lf.Path, Term: ls[j].s, Sort: lf.Sort})
		}
	}
	var bind []*Val
	for _, fv := range fn.FreeVars {
		v := x.freshTyped(st, "fv_"+fv.Name(), fv.Type())
		bind = append(bind, v)
		env[fv.Name()] = v
		if v.K == kPtr {
			// a free variable is the address of a captured variable: never nil
			x.assume(st, Neq(v.L.Base, IntLit(0)), "captured variable address non-nil")
		}
		// free variables are pointers to the captured variables; spec names refer to their contents
	}
	// A7: receiver non-nil ; A2: pointer parameters of the same type are distinct objects
	if fn.Signature.Recv() != nil && len(args) > 0 && args[0].K == kPtr && !con.has("nilrecv") {
		x.assume(st, Neq(args[0].L.Base, IntLit(0)), "A7 receiver non-nil")
	}
	if !con.has("mayalias") {
		var ptrs []*Val
		for _, a := range append(append([]*Val{}, args...), bind...) {
			if a.K == kPtr {
				ptrs = append(ptrs, a)
			}
		}
		for i := 0; i < len(ptrs); i++ {
			for j := i + 1; j < len(ptrs); j++ {
				if ptrs[i].L.Root == ptrs[j].L.Root {
					x.assume(st, Or(Neq(ptrs[i].L.Base, ptrs[j].L.Base), Eq(ptrs[i].L.Base, IntLit(0))), "A2 distinct pointer parameters")
				}
			}
		}
		// slices passed as parameters have distinct backing arrays
		var sls []*Val
		for _, a := range args {
			if a.K == kSlice {
				sls = append(sls, a)
			}
		}
		if con.has("zerooffset") {
			// A8 (per contract): a slice parameter shares its backing array with no other slice the
			// function reaches, so it may be taken to start at element 0 of that array without loss
			// of generality (keeps quantified facts about its elements free of index arithmetic)
			for _, s := range sls {
				x.assume(st, Eq(s.Off, IntLit(0)), "A8 slice parameter at offset 0")
				s.Off = IntLit(0)
			}
			x.note("A8: slice parameters taken at offset 0 of their backing arrays (not shared with other reachable slices)")
		}
		for i := 0; i < len(sls); i++ {
			for j := i + 1; j < len(sls); j++ {
				x.assume(st, Or(Neq(sls[i].Arr, sls[j].Arr), Eq(sls[i].Arr, IntLit(0))), "A2 distinct slice parameters")
			}
		}
	}
	// entry frame is created by runFunc; preconditions need a context first
	sctx := &SpecCtx{x: x, st: st, env: env, pkg: x.pkgOfContract(con), con: con}
	for _, cl := range con.of("let", -1) {
		sctx.cl = cl
		env[cl.Name] = sctx.eval(cl.Expr)
	}
	for _, cl := range con.of("requires", -1) {
		x.assume(st, sctx.evalBool(cl), "requires "+cl.ID)
	}
	// vacuity: the precondition must be satisfiable
	if v := x.sess.CheckWith(TTrue); v == Unsat {
		fres.Vacuous = "precondition (with type invariants) is unsatisfiable"
		return
	}
	x.topMods = nil
	for _, cl := range con.of("modifies", -1) {
		x.topMods = append(x.topMods, sctx.modTargets(cl)...)
	}
	st.heap0 = st.snap()
	entryEnv := env

	x.runFunc(st, fn, args, bind, 0, func(st2 *State, res *Val) {
		returns++
		x.paths++
		penv := map[string]*Val{}
		for k, v := range entryEnv {
			penv[k] = v
		}
		pctx := &SpecCtx{x: x, st: st2, env: penv, pkg: x.pkgOfContract(con), con: con}
		h0 := st2.heap0
		pctx.old = &h0
		pctx.bindResults(fn.Signature, res)
		// result leaves, for replay predictions
		x.outputs = nil
		if rt := fn.Signature.Results(); rt.Len() > 0 {
			func() {
				defer func() { recover() }()
				var rv []*Val
				if rt.Len() == 1 {
					rv = []*Val{res}
				} else {
					rv = res.F
				}
				for i := 0; i < rt.Len(); i++ {
					ls := x.valLeaves(st2, rv[i], rt.At(i).Type())
					for j, lf := range flatten(rt.At(i).Type()) {
						x.outputs = append(x.outputs, InputVar{Name: fmt.Sprintf("result%d%s", i, lf.Path), Term: ls[j].s, Sort: lf.Sort})
					}
				}
			}()
		}
		for _, cl := range con.of("ensures", -1) {
			t := pctx.evalBool(cl)
			x.check(st2, t, "postcondition", cl.ID, x.site(fn.Pos()), cl.Text)
		}
	})
	if returns == 0 && !con.has("noreturn") && x.aborted == "" {
		fres.Vacuous = "no feasible path reaches a return"
	}
	// a clause that counts a call which the function never makes under that name says nothing
	// (typically a misspelt name): noted in the evidence, printed by strict runs
	if x.aborted == "" {
		for _, cl := range con.Clauses {
			for _, m := range reCallName.FindAllStringSubmatch(cl.Text, -1) {
				if strings.Contains(cl.Text, `ncalls("`+m[2]+`") == 0`) {
					continue // "is never called" is exactly what the clause says
				}
				if n := canonCall(m[2]); !x.seenCalls[n] {
					x.note("call name never counted in " + shortKey(con.Key()) + ": " + n + " (clause " + cl.ID + ")")
				}
			}
		}
	}
	// a sink clause guards nothing if no feasible path calls the callee it names
	if x.aborted == "" && fres.Vacuous == "" {
		for _, cl := range con.Clauses {
			if cl.Kind == "sink" && !x.sinkHit[cl.ID] {
				fres.Vacuous = "sink clause " + cl.ID + " names a callee (" + cl.Name + ") that no feasible path calls"
				break
			}
		}
	}
	// block coverage: code of the function that no feasible path reached was not verified at all
	// (a contradictory precondition or callee contract makes everything behind it pass vacuously).
	// Blocks listed under "deadcode L1,L2,.." (source lines) are expected to be unreachable.
	if x.aborted == "" && !con.has("stopatsink") {
		dead := map[int]bool{}
		for _, s := range strings.Split(con.Flags["deadcode"], ",") {
			if n, err := strconv.Atoi(strings.TrimSpace(s)); err == nil {
				dead[n] = true
			}
		}
		var missed []string
		for _, b := range fn.Blocks {
			if x.visitedBlocks[b] || b.Comment == "recover" {
				continue
			}
			line := 0
			for _, in := range b.Instrs {
				if p := in.Pos(); p.IsValid() {
					line = x.w.Fset.Position(p).Line
					break
				}
			}
			if line == 0 || dead[line] {
				continue
			}
			missed = append(missed, fmt.Sprintf("%d(%s)", line, b.Comment))
		}
		if len(missed) > 0 {
			fres.Unreached = missed
		}
	}
	return
}

func shortKey(k string) string {
	return strings.TrimPrefix(k, modPath+"weed/")
}

// ---------- discharge ----------

func obligBody(o *Oblig) string {
	var b strings.Builder
	for _, e := range o.PC.Entries() {
		b.WriteString(e.SMT())
		b.WriteByte('\n')
	}
	goalText := o.Goal.s
	if os.Getenv("GCV_NOINST") == "" && (strings.Contains(goalText, "(forall ") || strings.Contains(goalText, "(exists ") || pcHasQuant(o.PC)) {
		var extra []string
		extra, goalText = instantiate(o.PC.Entries(), o.Goal)
		for _, x := range extra {
			b.WriteString(x)
			b.WriteByte('\n')
		}
	}
	b.WriteString("(assert (not " + goalText + "))\n")
	return b.String()
}

func dischargeAll(frs []*FuncResult, timeoutMs int, workers int, dumpDir string) {
	var jobs []func()
	for _, fr := range frs {
		for _, o := range fr.Obligs {
			if o.Done {
				continue
			}
			o := o
			jobs = append(jobs, func() {
				body := obligBody(o)
				if len(body) > 4<<20 {
					o.Res = SolveResult{V: Unknown, Reason: "VC larger than 4 MB"}
					o.Done = true
					return
				}
				hasQ := strings.Contains(body, "forall")
				if hasQ {
					// quantified goals: race the full query against sliced ones (fewer hypotheses)
					type sl struct {
						ok    bool
						label string
						secs  float64
					}
					rctx, rcancel := context.WithCancel(context.Background())
					defer rcancel()
					sch := make(chan sl, 1)
					go func() {
						ok, label, secs := dischargeSliced(rctx, o.PC.Entries(), o.Goal.s, timeoutMs)
						sch <- sl{ok, label, secs}
					}()
					fch := make(chan SolveResult, 1)
					go func() { fch <- DischargeCtx(rctx, body, timeoutMs) }()
					var full *SolveResult
					var sliced *sl
					for full == nil || sliced == nil {
						select {
						case r := <-fch:
							full = &r
						case s := <-sch:
							sliced = &s
						}
						if full != nil && full.V != Unknown {
							break
						}
						if sliced != nil && sliced.ok {
							break
						}
					}
					switch {
					case full != nil && full.V != Unknown:
						o.Res = *full
					case sliced != nil && sliced.ok:
						o.Res = SolveResult{V: Unsat, Solver: "z3-new(sliced " + sliced.label + ")", Secs: sliced.secs, Tried: []string{"z3-new"}}
					default:
						o.Res = *full
					}
				} else {
					o.Res = Discharge(body, timeoutMs, false)
				}
				o.Done = true
				if dumpDir != "" && (o.Res.V != Unsat || os.Getenv("GCV_DUMPALL") != "") {
					os.MkdirAll(dumpDir, 0o755)
					os.WriteFile(dumpDir+"/"+sanitizeFile(o.Name)+fmt.Sprintf("-%p", o)+".smt2", []byte(scriptFor("z3", body, timeoutMs, true)), 0o644)
				}
			})
		}
	}
	parallel(workers, jobs)
}

func sanitizeFile(s string) string {
	r := regexp.MustCompile(`[^A-Za-z0-9_.#@:-]`).ReplaceAllString(s, "_")
	if len(r) > 150 {
		r = r[:150]
	}
	return r
}

// modelValues extracts the values of the given symbols from a get-model answer.
func modelValues(model string, syms []InputVar) map[string]string {
	out := map[string]string{}
	for _, iv := range syms {
		re := regexp.MustCompile(`\(define-fun ` + regexp.QuoteMeta(iv.Term) + ` \(\) [^\n]*\n?\s*([^\n]*)\)`) // value on same or next line
		if m := re.FindStringSubmatch(model); m != nil {
			out[iv.Name] = strings.TrimSpace(m[1])
		}
	}
	return out
}

// summary by obligation name
type nameSummary struct {
	Name      string
	Instances int
	Unsat     int
	Sat       int
	Unknown   int
	Backends  map[string]int
	MaxSecs   float64
	Bounded   int
}

func summarize(frs []*FuncResult) []*nameSummary {
	m := map[string]*nameSummary{}
	for _, fr := range frs {
		for _, o := range fr.Obligs {
			key := fr.Tags + "|" + o.Name
			s := m[key]
			if s == nil {
				s = &nameSummary{Name: o.Name, Backends: map[string]int{}}
				m[key] = s
			}
			s.Instances++
			switch o.Res.V {
			case Unsat:
				s.Unsat++
			case Sat:
				s.Sat++
			default:
				s.Unknown++
			}
			s.Backends[o.Res.Solver]++
			if o.Res.Secs > s.MaxSecs {
				s.MaxSecs = o.Res.Secs
			}
			if o.Bounded != "" {
				s.Bounded++
			}
		}
	}
	var out []*nameSummary
	for _, s := range m {
		out = append(out, s)
	}
	sort.Slice(out, func(i, j int) bool { return out[i].Name < out[j].Name })
	return out
}

var _ = types.Typ
