package main

// Calls: models, contracts, inlining, havoc; builtins; maps.

import (
	"fmt"
	"go/ast"
	"go/parser"
	"go/token"
	"go/types"
	"strings"

	"golang.org/x/tools/go/ssa"
)

const maxInlineDepth = 6

func (x *Exec) contractFor(f *ssa.Function) *Contract {
	if c := x.w.ByFn[f]; c != nil {
		return c
	}
	return x.externByName(externName(f))
}

// externByName: an extern of the contract file of the package being verified wins over a global
// one (spec/externs.spec); externs of other packages' contract files do not apply.
func (x *Exec) externByName(name string) *Contract {
	if x.curCon != nil && x.curCon.Pkg != "" {
		if c := x.w.Contracts[name+"@"+x.curCon.Pkg]; c != nil {
			return c
		}
	}
	return x.w.Contracts[name]
}

// externName renders f the way extern contracts are keyed: pkgpath.F or (*pkgpath.T).M
func externName(f *ssa.Function) string {
	if recv := f.Signature.Recv(); recv != nil {
		return "(" + recv.Type().String() + ")." + f.Name()
	}
	if f.Pkg != nil {
		return f.Pkg.Pkg.Path() + "." + f.Name()
	}
	return f.String()
}

func (x *Exec) externFor(c *ssa.CallCommon) *Contract {
	if !c.IsInvoke() {
		return nil
	}
	name := "(" + c.Value.Type().String() + ")." + c.Method.Name()
	return x.externByName(name)
}

func (x *Exec) doCall(st *State, fr *Frame, call *ssa.CallCommon, instr ssa.Value, cont retFn) {
	var args []*Val
	for _, a := range call.Args {
		args = append(args, x.val(st, fr, a))
	}
	fnv := x.val(st, fr, call.Value)
	pos := call.Pos()
	if instr != nil && !pos.IsValid() {
		pos = instr.Pos()
	}
	x.callValue(st, fr, call, fnv, args, pos, cont)
}

func (x *Exec) callValue(st *State, fr *Frame, call *ssa.CallCommon, fnv *Val, args []*Val, pos token.Pos, cont retFn) {
	resT := call.Signature().Results()
	if call.IsInvoke() {
		x.invoke(st, fr, call, fnv, args, pos, cont)
		return
	}
	if b, ok := call.Value.(*ssa.Builtin); ok {
		if b.Name() == "append" && x.curCon != nil && x.curCon.has("forkappend") && args[0].K == kSlice && args[1].K != kNil {
			// one path per outcome (in place / reallocated) instead of an ite of both in every term
			fits := Le(Add(args[0].Len, x.lenOf(args[1])), args[0].Cap)
			x.fork2(st, fits, "append fits", func(s *State) {
				cont(s, x.builtin(s, fr, b, call, args, pos))
			}, func(s *State) {
				cont(s, x.builtin(s, fr, b, call, args, pos))
			})
			return
		}
		cont(st, x.builtin(st, fr, b, call, args, pos))
		return
	}
	if fnv.K == kFunc && fnv.Fn != nil {
		x.callFunc(st, fr, fnv.Fn, args, fnv.Bind, pos, cont)
		return
	}
	// unknown function value
	x.note("call through unknown function value at " + x.site(pos))
	x.ghostCall(st, "funcvalue", args)
	cont(st, x.havocCall(st, "fv", args, resT))
}

func resultType(sig *types.Signature) types.Type {
	r := sig.Results()
	if r.Len() == 1 {
		return r.At(0).Type()
	}
	return r
}

func (x *Exec) havocCall(st *State, hint string, args []*Val, res *types.Tuple) *Val {
	refs := false
	for _, a := range args {
		if a == nil {
			continue
		}
		switch a.K {
		case kPtr, kSlice, kIface, kFunc:
			refs = true
		case kScalar:
			if a.Typ != nil {
				switch a.Typ.Underlying().(type) {
				case *types.Map, *types.Chan:
					refs = true
				}
			}
		case kStruct, kArray, kTuple:
			refs = true
		}
	}
	if refs {
		for _, a := range args {
			x.markEscaped(st, a)
		}
		x.havocAllBut(st, "opaque call "+hint, true)
	}
	return x.freshResult(st, hint, res)
}

func (x *Exec) freshResult(st *State, hint string, res *types.Tuple) *Val {
	switch res.Len() {
	case 0:
		return &Val{K: kTuple}
	case 1:
		return x.freshTyped(st, hint+"_r", res.At(0).Type())
	}
	v := &Val{K: kTuple, Typ: res}
	for i := 0; i < res.Len(); i++ {
		v.F = append(v.F, x.freshTyped(st, fmt.Sprintf("%s_r%d", hint, i), res.At(i).Type()))
	}
	return v
}

func (x *Exec) ghostCall(st *State, name string, args []*Val) {
	name = canonCall(name)
	x.sinkGuards(st, name, args)
	x.ghostCount(st, name, args)
}

// ghostCount records a call (counter, last arguments) without checking sink guards: calls by
// contract check their guards before the callee's frame is havoc'd.
func (x *Exec) ghostCount(st *State, name string, args []*Val) {
	name = canonCall(name)
	k := "ncalls:" + name
	cur := st.ghost[k]
	if cur == nil {
		cur = IntLit(0)
	}
	st.ghost[k] = Add(cur, IntLit(1))
	st.calls = append(st.calls, name)
	if x.seenCalls != nil {
		x.seenCalls[name] = true
	}
	// remember scalar arguments of the last call for effect specs: lastarg("name", i)
	for i, a := range args {
		if a != nil && a.K == kScalar {
			st.ghost[fmt.Sprintf("lastarg:%s:%d", name, i)] = a.T
		}
		// a pointer / interface argument is recorded per path by its object identity (what
		// ref(..) of it denotes), so that it merges like any other ghost value
		if a != nil && a.K == kPtr && a.L != nil && a.L.Idx == nil && a.L.Path == "" {
			st.ghost[fmt.Sprintf("lastarg:%s:%d", name, i)] = a.L.Base
		}
		if a != nil && a.K == kIface && a.Ptr != nil {
			st.ghost[fmt.Sprintf("lastarg:%s:%d", name, i)] = a.Ptr
		}
		if a != nil {
			x.lastArgs[fmt.Sprintf("%s:%d", name, i)] = a
		}
	}
}

// ghostRet remembers the scalar results of the last call: lastret("name", i)
func (x *Exec) ghostRet(st *State, name string, res *Val) {
	if res == nil {
		return
	}
	name = canonCall(name)
	// scalars are recorded as they are; an interface result (typically an error) is recorded by
	// its dynamic type tag (0 = nil), a pointer result by its object identity (0 = nil)
	rec := func(i int, f *Val) {
		if f == nil {
			return
		}
		switch f.K {
		case kScalar:
			st.ghost[fmt.Sprintf("lastret:%s:%d", name, i)] = f.T
		case kIface:
			if f.Tag != nil {
				st.ghost[fmt.Sprintf("lastret:%s:%d", name, i)] = f.Tag
			}
		case kPtr:
			if f.L != nil && f.L.Idx == nil && f.L.Path == "" {
				st.ghost[fmt.Sprintf("lastret:%s:%d", name, i)] = f.L.Base
			}
		case kSlice:
			// a slice result is recorded by its length
			if f.Len != nil {
				st.ghost[fmt.Sprintf("lastret:%s:%d", name, i)] = f.Len
			}
		}
	}
	if res.K == kTuple {
		for i, f := range res.F {
			rec(i, f)
		}
		return
	}
	rec(0, res)
}

func inModule(f *ssa.Function) bool {
	p := f.Pkg
	if p == nil && f.Parent() != nil {
		p = f.Parent().Pkg
	}
	if p == nil {
		if recv := f.Signature.Recv(); recv != nil {
			return strings.Contains(recv.Type().String(), modPath)
		}
		return false
	}
	return strings.HasPrefix(p.Pkg.Path(), modPath)
}

func (x *Exec) callFunc(st *State, fr *Frame, fn *ssa.Function, args []*Val, bind []*Val, pos token.Pos, cont retFn) {
	name := fn.String()
	if m := x.model(fn, name); m != nil {
		m(st, fr, fn, args, pos, cont)
		return
	}
	inlineAll := len(st.frames) > 0 && st.frames[0].con != nil && st.frames[0].con.has("inlinecalls") && fn.Blocks != nil && inModule(fn)
	if c := x.contractFor(fn); c != nil && !(c.has("inline")) && !inlineAll {
		x.callByContract(st, fr, c, fn.Signature, fn, args, pos, cont)
		return
	}
	if len(st.frames) > 0 && st.frames[0].con != nil && st.frames[0].con.has("opaquecalls") && fn.Parent() == nil && fn.Blocks != nil && inModule(fn) && !isSmallLeaf(fn) {
		// abstraction requested by the contract under verification (guard / effect obligations of
		// large handlers): module functions without a contract are not inlined but treated as
		// arbitrary code - everything reachable from the arguments is havoc'd, the call is counted
		x.note("module call abstracted (opaquecalls): " + name)
		en := externName(fn)
		x.ghostCall(st, en, args)
		res := x.havocCall(st, sanitize(fn.Name()), args, fn.Signature.Results())
		x.ghostRet(st, en, res)
		cont(st, res)
		return
	}
	if fn.Blocks != nil && inModule(fn) && fr.depth < maxInlineDepth {
		// recursion guard
		for _, f := range st.frames {
			if f.fn == fn {
				x.note("recursive call without contract havoc'd: " + name)
				x.ghostCall(st, fnRelName(fn), args)
				cont(st, x.havocCall(st, sanitize(fn.Name()), args, fn.Signature.Results()))
				return
			}
		}
		x.runFunc(st, fn, args, bind, fr.depth+1, cont)
		return
	}
	x.note("opaque call (no contract, no model): " + name)
	x.ghostCall(st, externName(fn), args)
	ores := x.havocCall(st, sanitize(fn.Name()), args, fn.Signature.Results())
	x.ghostRet(st, externName(fn), ores)
	cont(st, ores)
}

func (x *Exec) invoke(st *State, fr *Frame, call *ssa.CallCommon, recv *Val, args []*Val, pos token.Pos, cont retFn) {
	x.checkBounds(st, Neq(recv.Tag, IntLit(0)), "nil-interface-call", pos)
	if recv.Tag.lit != nil {
		dt := x.typeByID[recv.Tag.lit.Int64()]
		if dt != nil {
			ms := x.w.Prog.MethodSets.MethodSet(dt)
			sel := ms.Lookup(call.Method.Pkg(), call.Method.Name())
			if sel != nil {
				f := x.w.Prog.MethodValue(sel)
				if f != nil {
					rv := x.unbox(st, recv, dt)
					x.callFunc(st, fr, f, append([]*Val{rv}, args...), nil, pos, cont)
					return
				}
			}
		}
	}
	name := "(" + call.Value.Type().String() + ")." + call.Method.Name()
	if res, ok := x.ifaceFileModel(st, call, recv, args, pos); ok {
		cont(st, res)
		return
	}
	if c := x.externByName(name); c != nil {
		sig := call.Method.Type().(*types.Signature)
		x.callByContractIface(st, fr, c, sig, recv, args, pos, cont)
		return
	}
	x.note("interface call without contract havoc'd: " + name)
	x.ghostCall(st, name, args)
	hres := x.havocCall(st, sanitize(call.Method.Name()), append([]*Val{recv}, args...), call.Signature().Results())
	x.ghostRet(st, name, hres)
	cont(st, hres)
}

// ---------- call by contract ----------

func paramNames(sig *types.Signature, fn *ssa.Function, c *Contract) []string {
	var names []string
	if fn != nil && len(fn.Params) > 0 {
		for _, p := range fn.Params {
			names = append(names, p.Name())
		}
		return names
	}
	if sig.Recv() != nil {
		n := sig.Recv().Name()
		if n == "" {
			n = "recv"
		}
		names = append(names, n)
	}
	for i := 0; i < sig.Params().Len(); i++ {
		n := sig.Params().At(i).Name()
		if n == "" || n == "_" {
			n = fmt.Sprintf("arg%d", i)
		}
		names = append(names, n)
	}
	if c != nil && len(c.ParamsOverride) > 0 {
		for i, n := range c.ParamsOverride {
			if i < len(names) {
				names[i] = n
			}
		}
	}
	return names
}

func (x *Exec) callByContract(st *State, fr *Frame, c *Contract, sig *types.Signature, fn *ssa.Function, args []*Val, pos token.Pos, cont retFn) {
	names := paramNames(sig, fn, c)
	env := map[string]*Val{}
	for i, n := range names {
		if i < len(args) {
			env[n] = args[i]
		}
	}
	x.applyContract(st, fr, c, sig, env, args, pos, cont)
}

func (x *Exec) callByContractIface(st *State, fr *Frame, c *Contract, sig *types.Signature, recv *Val, args []*Val, pos token.Pos, cont retFn) {
	env := map[string]*Val{"recv": recv}
	for i := 0; i < sig.Params().Len() && i < len(args); i++ {
		n := sig.Params().At(i).Name()
		if n == "" || n == "_" {
			n = fmt.Sprintf("arg%d", i)
		}
		env[n] = args[i]
	}
	if len(c.ParamsOverride) > 0 {
		all := append([]*Val{recv}, args...)
		for i, n := range c.ParamsOverride {
			if i < len(all) {
				env[n] = all[i]
			}
		}
	}
	x.applyContract(st, fr, c, sig, env, append([]*Val{recv}, args...), pos, cont)
}

func (x *Exec) applyContract(st *State, fr *Frame, c *Contract, sig *types.Signature, env map[string]*Val, args []*Val, pos token.Pos, cont retFn) {
	cname := c.Func
	sctx := &SpecCtx{x: x, st: st, env: env, pkg: x.pkgOfContract(c), con: c}
	for _, cl := range c.of("requires", -1) {
		t := sctx.evalBool(cl)
		if len(st.frames) > 0 && st.frames[0].con != nil && st.frames[0].con.has("assumepre") {
			// abstracted caller (guard / effect obligations only): its own state is havoc'd by the
			// opaque calls around, so callee preconditions are assumed here and reported
			x.note("callee precondition assumed (assumepre): " + cname + " requires " + cl.Text)
			x.assume(st, t, "assumed precondition of "+cname)
			continue
		}
		x.check(st, t, "precondition", cname+"."+cl.ID, x.site(pos), "callee "+cname+" requires "+cl.Text)
	}
	// guard obligations of the function under verification for this callee: in the state of
	// the call, before the callee's frame is havoc'd
	x.sinkGuards(st, cname, args)
	for _, a := range args {
		x.markEscaped(st, a)
	}
	old := st.snap()
	// frame: havoc what the callee may modify
	for _, cl := range c.of("modifies", -1) {
		for _, m := range sctx.modTargets(cl) {
			x.applyHavoc(st, m)
		}
	}
	// Objects a callee allocates look to the caller like references below the current
	// allocation frontier (sound: they may alias anything old, never a later allocation of ours).
	// Only contracts that talk about fresh() results need a new frontier.
	if c.has("allocates") {
		// what the callee allocates lies between the caller's frontier before the call and the
		// frontier after it: distinct from everything older, from what other calls allocate and
		// from the caller's own later allocations (fresh(x) in its postconditions means this)
		sctx.allocMark = Add(st.allocBase, IntLit(st.allocK))
		x.bumpAllocBase(st)
		sctx.allocHi = st.allocBase
	}
	res := x.freshResult(st, sanitize(cname), sig.Results())
	// bind results
	sctx.bindResults(sig, res)
	sctx.old = &old
	if !c.Extern && !c.has("trusted") {
		// proved contracts speak about the callee's own calls; assumed ones are written for the caller's record
		sctx.calleeGhost = map[string]*Term{}
	}
	// cover: a call site that is reachable must stay reachable once the callee's postconditions
	// are assumed; otherwise the contract (or its combination with the result model, e.g. fresh()
	// without the allocates flag) is contradictory and everything after the call verifies vacuously
	reachableBefore := len(c.of("ensures", -1)) > 0 && !x.discover && x.sess.CheckWith(TTrue) == Sat
	for _, cl := range c.of("ensures", -1) {
		var t *Term
		func() {
			// a postcondition about the callee's own calls with non-scalar arguments (lastarg of a
			// slice) cannot be rendered for the caller: it is skipped, which only assumes less
			defer func() {
				if r := recover(); r != nil {
					if se, ok := r.(specError); ok && sctx.calleeGhost != nil {
						x.note("callee postcondition not usable at call sites (skipped): " + cname + "." + cl.ID + ": " + se.msg)
						t = nil
						return
					}
					panic(r)
				}
			}()
			t = sctx.evalBool(cl)
		}()
		if t != nil {
			x.assume(st, t, "callee-post "+cname+"."+cl.ID)
		}
	}
	if reachableBefore && x.sess.CheckWith(TTrue) == Unsat {
		if x.aborted == "" {
			x.aborted = "vacuity: the postconditions assumed for " + cname + " at " + x.site(pos) + " contradict the state at the call (a reachable call has no possible outcome)"
		}
	}
	x.ghostCount(st, cname, args)
	x.ghostRet(st, cname, res)
	if c.Extern {
		x.note("assumed contract (extern): " + cname)
	} else if c.has("trusted") {
		x.note("assumed contract (trusted): " + cname)
	}
	cont(st, res)
}

func (x *Exec) applyHavoc(st *State, m modTarget) {
	if m.all {
		x.havocAll(st, "callee modifies *")
		return
	}
	if m.key == "" {
		// whole object: every known key under root prefix + all leaves of type
		for _, k := range m.keys {
			arr := x.heapGet(st, k.key, k.sort)
			f := x.freshConst(st, "hv", k.sort)
			st.heap[k.key] = Store(arr, m.base, f)
		}
		return
	}
	srt := m.sort
	if m.whole {
		x.havocKey(st, m.key, srt)
		return
	}
	arr := x.heapGet(st, m.key, srt)
	if m.lo == nil {
		// value stored per object: a scalar leaf, a whole backing array, or a whole map column
		_, vs := arrSorts(heapSort(m.key, srt))
		f := x.freshConst(st, "hv", vs)
		st.heap[m.key] = Store(arr, m.base, f)
		return
	}
	// element range: fresh inner array equal to the old one outside [lo,hi)
	inner := Select(arr, m.base)
	ni := x.freshConst(st, "hvr", SArr(SInt, srt))
	i := Var("i!hv", SInt)
	body := Implies(Or(Lt(i, m.lo), Ge(i, m.hi)), app(SBool, "=", app(srt, "select", ni, i), app(srt, "select", inner, i)))
	x.assume(st, Forall([][2]string{{"i!hv", SInt}}, body, []*Term{app(srt, "select", ni, i)}), "frame-of-range")
	st.heap[m.key] = Store(arr, m.base, ni)
}

func (x *Exec) pkgOfContract(c *Contract) *types.Package {
	if c.Fn != nil && c.Fn.Pkg != nil {
		return c.Fn.Pkg.Pkg
	}
	if c.Fn != nil && c.Fn.Parent() != nil && c.Fn.Parent().Pkg != nil {
		return c.Fn.Parent().Pkg.Pkg
	}
	if sp := x.w.SSAPkgs[c.Pkg]; sp != nil {
		return sp.Pkg
	}
	return nil
}

// ---------- builtins ----------

func (x *Exec) builtin(st *State, fr *Frame, b *ssa.Builtin, call *ssa.CallCommon, args []*Val, pos token.Pos) *Val {
	switch b.Name() {
	case "len":
		a := args[0]
		switch a.K {
		case kSlice:
			return scalar(a.Len, types.Typ[types.Int])
		case kScalar:
			if a.T.sort == SStr {
				return scalar(WithBounds(StrLen(a.T), bigI(0), maxAddr), types.Typ[types.Int])
			}
			if mt, ok := a.Typ.Underlying().(*types.Map); ok {
				return scalar(x.mapLen(st, a.T, mt), types.Typ[types.Int])
			}
			if _, ok := a.Typ.Underlying().(*types.Chan); ok {
				return x.freshTyped(st, "chanlen", types.Typ[types.Int])
			}
		case kArray:
			return scalar(IntLit(int64(len(a.F))), types.Typ[types.Int])
		case kPtr:
			if arr, ok := a.L.T.Underlying().(*types.Array); ok {
				return scalar(IntLit(arr.Len()), types.Typ[types.Int])
			}
		}
	case "cap":
		a := args[0]
		if a.K == kSlice {
			return scalar(a.Cap, types.Typ[types.Int])
		}
	case "append":
		// a contract may guard what is appended: sink "append" requires ... (sinkarg(0) the list,
		// sinkarg(1) the appended slice)
		// an append whose appended slice is read from a field F is also the sink "append(.F)"
		x.sinkGuards(st, "append", args)
		if len(call.Args) == 2 {
			if u, ok := call.Args[1].(*ssa.UnOp); ok && u.Op == token.MUL {
				if fa, ok := u.X.(*ssa.FieldAddr); ok {
					if pt, ok := fa.X.Type().Underlying().(*types.Pointer); ok {
						if stt, ok := pt.Elem().Underlying().(*types.Struct); ok {
							x.sinkGuards(st, "append(."+stt.Field(fa.Field).Name()+")", args)
						}
					}
				}
			}
		}
		return x.doAppend(st, args[0], args[1], call.Args[0].Type(), call.Args[1].Type(), pos)
	case "copy":
		return x.doCopy(st, args[0], args[1], call.Args[0].Type(), call.Args[1].Type(), pos)
	case "delete":
		x.mapDelete(st, args[0], args[1], call.Args[0].Type().Underlying().(*types.Map))
		return &Val{K: kTuple}
	case "print", "println":
		return &Val{K: kTuple}
	case "ssa:wrapnilchk":
		return args[0]
	case "min", "max":
		r := args[0].T
		for _, a := range args[1:] {
			if b.Name() == "min" {
				r = Ite(Le(r, a.T), r, a.T)
			} else {
				r = Ite(Ge(r, a.T), r, a.T)
			}
		}
		return scalar(r, args[0].Typ)
	}
	panic(unsupported{"builtin " + b.Name() + " on " + args[0].String()})
}

func (x *Exec) sliceElemKeys(t types.Type) (et types.Type, keys []leaf) {
	et = t.Underlying().(*types.Slice).Elem()
	return et, flatten(et)
}

// writeRange: returns inner' = inner with [dstOff, dstOff+n) := src[srcOff, srcOff+n)
func (x *Exec) writeRange(st *State, inner *Term, dstOff *Term, src *Term, srcOff *Term, n *Term, srt string) *Term {
	if k := x.litOf(st, n); k != nil && k.IsInt64() && k.Int64() <= 16 {
		cur := inner
		for j := int64(0); j < k.Int64(); j++ {
			cur = Store(cur, Add(dstOff, IntLit(j)), Select(src, Add(srcOff, IntLit(j))))
		}
		return cur
	}
	ni := x.freshConst(st, "cp", SArr(SInt, srt))
	i := Var("i!cp", SInt)
	sel := app(srt, "select", ni, i)
	inR := And(Le(dstOff, i), Lt(i, Add(dstOff, n)))
	body := app(SBool, "=", sel, Ite(inR, Select(src, Add(Sub(i, dstOff), srcOff)), Select(inner, i)))
	x.assume(st, Forall([][2]string{{"i!cp", SInt}}, body, []*Term{sel}), "copy-range")
	return ni
}

func (x *Exec) doCopy(st *State, dst, src *Val, dt, stt types.Type, pos token.Pos) *Val {
	n := x.bind(st, Ite(Le(dst.Len, x.lenOf(src)), dst.Len, x.lenOf(src)), "cpn")
	n = WithBounds(n, bigI(0), maxAddr)
	et, keys := x.sliceElemKeys(dt)
	if src.K == kScalar && src.T.sort == SStr {
		// copy(bytes, string)
		key := x.elemRoot(et) + "|"
		arr := x.heapGet(st, key, SInt)
		inner := Select(arr, dst.Arr)
		ni := x.freshConst(st, "cps", SArr(SInt, SInt))
		i := Var("i!cps", SInt)
		sel := app(SInt, "select", ni, i)
		inR := And(Le(dst.Off, i), Lt(i, Add(dst.Off, n)))
		body := app(SBool, "=", sel, Ite(inR, app(SInt, "str.to_code", app(SStr, "str.at", src.T, Sub(i, dst.Off))), Select(inner, i)))
		x.assume(st, Forall([][2]string{{"i!cps", SInt}}, body, []*Term{sel}), "copy-string")
		x.frameCheckRange(st, key, dst.Arr, dst.Off, Add(dst.Off, n), pos)
		st.heap[key] = Store(arr, dst.Arr, ni)
		return scalar(n, types.Typ[types.Int])
	}
	for _, lf := range keys {
		key := x.elemRoot(et) + "|" + lf.Path
		arr := x.heapGet(st, key, lf.Sort)
		dInner := Select(arr, dst.Arr)
		sInner := Select(arr, src.Arr)
		ni := x.writeRange(st, dInner, dst.Off, sInner, src.Off, n, lf.Sort)
		x.frameCheckRange(st, key, dst.Arr, dst.Off, Add(dst.Off, n), pos)
		st.heap[key] = Store(arr, dst.Arr, ni)
	}
	return scalar(n, types.Typ[types.Int])
}

func (x *Exec) lenOf(v *Val) *Term {
	if v.K == kSlice {
		return v.Len
	}
	if v.K == kScalar && v.T.sort == SStr {
		return StrLen(v.T)
	}
	panic("lenOf")
}

func (x *Exec) doAppend(st *State, s, t *Val, stype, ttype types.Type, pos token.Pos) *Val {
	if s.K == kNil {
		z := IntLit(0)
		s = &Val{K: kSlice, Arr: z, Off: z, Len: z, Cap: z, Typ: stype}
	}
	et, keys := x.sliceElemKeys(stype)
	var n *Term
	isStr := t.K == kScalar && t.T.sort == SStr
	if t.K == kNil {
		return s
	}
	n = x.lenOf(t)
	newLen := x.bind(st, Add(s.Len, n), "alen")
	fits := Le(newLen, s.Cap)
	if !fits.isTrue() && !fits.isFalse() && x.inQuant == 0 {
		// decide the capacity question now when the path condition settles it: the result is
		// then a plain in-place write (or a plain copy) instead of an ite of both
		if x.sess.CheckWith(Not(fits)) == Unsat {
			fits = TTrue
		} else if x.sess.CheckWith(fits) == Unsat {
			fits = TFalse
		}
	}
	newRef := x.alloc(st)
	newCap := x.freshConst(st, "acap", SInt)
	x.assume(st, And(Ge(newCap, newLen), Le(newCap, IntLitBig(maxAddr))), "append-cap")
	for _, lf := range keys {
		key := x.elemRoot(et) + "|" + lf.Path
		arr := x.heapGet(st, key, lf.Sort)
		old := Select(arr, s.Arr)
		var srcInner *Term
		var srcOff *Term
		if isStr {
			// bytes of the string as an array
			sb := x.stringToBytes(st, t.T, stype.Underlying().(*types.Slice), stype)
			arr = x.heapGet(st, key, lf.Sort)
			srcInner = Select(arr, sb.Arr)
			srcOff = IntLit(0)
		} else {
			srcInner = Select(arr, t.Arr)
			srcOff = t.Off
		}
		inPlace := x.writeRange(st, old, Add(s.Off, s.Len), srcInner, srcOff, n, lf.Sort)
		// fresh array: old prefix then new elements
		moved := x.writeRange(st, ConstArr(SArr(SInt, lf.Sort), zeroOfSort(lf.Sort)), IntLit(0), old, s.Off, s.Len, lf.Sort)
		moved = x.writeRange(st, moved, s.Len, srcInner, srcOff, n, lf.Sort)
		if !fits.isTrue() && !fits.isFalse() || fits.isTrue() {
			x.frameCheckRangeCond(st, fits, key, s.Arr, Add(s.Off, s.Len), Add(s.Off, newLen), pos)
		}
		arr = Store(arr, s.Arr, Ite(fits, inPlace, old))
		arr = Store(arr, newRef, moved)
		st.heap[key] = arr
	}
	return &Val{K: kSlice, Arr: x.bind(st, Ite(fits, s.Arr, newRef), "aarr"), Off: x.bind(st, Ite(fits, s.Off, IntLit(0)), "aoff"),
		Len: WithBounds(newLen, bigI(0), maxAddr), Cap: WithBounds(x.bind(st, Ite(fits, s.Cap, newCap), "acp"), bigI(0), maxAddr), Typ: stype}
}

func (x *Exec) frameCheckRange(st *State, key string, base, lo, hi *Term, pos token.Pos) {
	x.frameCheckRangeCond(st, TTrue, key, base, lo, hi, pos)
}

func (x *Exec) frameCheckRangeCond(st *State, cond *Term, key string, base, lo, hi *Term, pos token.Pos) {
	if x.discover || len(st.frames) == 0 {
		return
	}
	top := st.frames[0]
	if top.con == nil || top.con.has("noframe") || st.fresh[base.s] {
		return
	}
	alts := []*Term{Ge(base, x.allocBase0), Ge(lo, hi), Not(cond)}
	for _, m := range x.topMods {
		if m.all {
			return
		}
		if m.key != key {
			continue
		}
		if m.whole {
			return
		}
		c := Eq(base, m.base)
		if m.lo != nil {
			c = And(c, Le(m.lo, lo), Le(hi, m.hi))
		}
		alts = append(alts, c)
	}
	x.check(st, Or(alts...), "frame", "write-within-modifies", x.site(pos), "write to "+key+" range is permitted by modifies")
}

// ---------- maps ----------

type mapKey struct {
	key  string
	sort string
}

func mapKeySort(mt *types.Map) string {
	ls := flatten(mt.Key())
	if len(ls) != 1 {
		panic(unsupported{"map with composite key type " + mt.Key().String()})
	}
	return ls[0].Sort
}

func (x *Exec) mapKeys(mt *types.Map) []mapKey {
	ks := mapKeySort(mt)
	root := "M|" + ks + "|" + typeKey(mt)
	out := []mapKey{{root + "|#present", SBool}, {root + "|#len", SInt}}
	for _, lf := range flatten(mt.Elem()) {
		out = append(out, mapKey{root + "|v" + lf.Path, lf.Sort})
	}
	return out
}

func mapKeyTerm(v *Val) *Term {
	switch v.K {
	case kScalar:
		return v.T
	case kPtr:
		return v.L.Base
	}
	panic(unsupported{"map key value " + v.String()})
}

func (x *Exec) makeMap(st *State, t types.Type) *Val {
	mt := t.Underlying().(*types.Map)
	ref := x.alloc(st)
	ks := mapKeySort(mt)
	root := "M|" + ks + "|" + typeKey(mt)
	p := x.heapGet(st, root+"|#present", SBool)
	st.heap[root+"|#present"] = Store(p, ref, ConstArr(SArr(ks, SBool), TFalse))
	l := x.heapGet(st, root+"|#len", SInt)
	st.heap[root+"|#len"] = Store(l, ref, IntLit(0))
	return scalar(ref, t)
}

func (x *Exec) mapLen(st *State, ref *Term, mt *types.Map) *Term {
	root := "M|" + mapKeySort(mt) + "|" + typeKey(mt)
	t := x.bind(st, Select(x.heapGet(st, root+"|#len", SInt), ref), "mlen")
	x.assumeRange(st, t, bigI(0), maxAddr)
	return WithBounds(t, bigI(0), maxAddr)
}

func (x *Exec) mapPresent(st *State, ref *Term, mt *types.Map, k *Term) *Term {
	root := "M|" + mapKeySort(mt) + "|" + typeKey(mt)
	return And(Neq(ref, IntLit(0)), Select(Select(x.heapGet(st, root+"|#present", SBool), ref), k))
}

func (x *Exec) mapValue(st *State, h *HeapSnap, ref *Term, mt *types.Map, k *Term) *Val {
	root := "M|" + mapKeySort(mt) + "|" + typeKey(mt)
	ls := flatten(mt.Elem())
	ts := make([]*Term, len(ls))
	for i, lf := range ls {
		var arr *Term
		if h != nil {
			arr = x.heapIn(st, *h, root+"|v"+lf.Path, lf.Sort)
		} else {
			arr = x.heapGet(st, root+"|v"+lf.Path, lf.Sort)
		}
		ts[i] = x.bind(st, Select(Select(arr, ref), k), "mv")
	}
	v, _ := x.leavesVal(mt.Elem(), ts)
	x.assumeWellTyped(st, v, mt.Elem())
	return v
}

func (x *Exec) lookup(st *State, fr *Frame, in *ssa.Lookup) *Val {
	m := x.val(st, fr, in.X)
	if m.K == kScalar && m.T.sort == SStr {
		// string index s[i]
		idx := x.val(st, fr, in.Index).T
		x.checkBounds(st, And(Le(IntLit(0), idx), Lt(idx, StrLen(m.T))), "index-in-range", in.Pos())
		return scalar(WithBounds(StrAtCode(m.T, idx), bigI(0), bigI(255)), in.Type())
	}
	mt := in.X.Type().Underlying().(*types.Map)
	k := mapKeyTerm(x.val(st, fr, in.Index))
	present := x.bind(st, x.mapPresent(st, m.T, mt, k), "mp")
	stored := x.mapValue(st, nil, m.T, mt, k)
	zero := x.zeroVal(mt.Elem())
	val := x.iteVal(st, present, stored, zero, mt.Elem())
	if in.CommaOk {
		return &Val{K: kTuple, F: []*Val{val, scalar(present, types.Typ[types.Bool])}, Typ: in.Type()}
	}
	return val
}

// iteVal builds ite(c, a, b) leaf-wise.
func (x *Exec) iteVal(st *State, c *Term, a, b *Val, t types.Type) *Val {
	if c.isTrue() {
		return a
	}
	if c.isFalse() {
		return b
	}
	la := x.valLeaves(st, a, t)
	lb := x.valLeaves(st, b, t)
	out := make([]*Term, len(la))
	for i := range la {
		t := Ite(c, la[i], lb[i])
		if t.op == "ite" && x.inQuant == 0 {
			// always name a conditional value: ite terms cannot occur in quantifier triggers
			nc := x.freshConst(st, "ite", t.sort)
			x.assume(st, app(SBool, "=", nc, t), "def")
			nc.lo, nc.hi = t.lo, t.hi
			t = nc
		}
		out[i] = t
	}
	v, _ := x.leavesVal(t, out)
	return v
}

func (x *Exec) mapUpdate(st *State, fr *Frame, in *ssa.MapUpdate) {
	m := x.val(st, fr, in.Map)
	mt := in.Map.Type().Underlying().(*types.Map)
	k := mapKeyTerm(x.val(st, fr, in.Key))
	v := x.val(st, fr, in.Value)
	x.checkBounds(st, Neq(m.T, IntLit(0)), "nil-map-write", in.Pos())
	root := "M|" + mapKeySort(mt) + "|" + typeKey(mt)
	x.frameCheckMap(st, root, m.T, in.Pos())
	was := x.bind(st, x.mapPresent(st, m.T, mt, k), "mwas")
	p := x.heapGet(st, root+"|#present", SBool)
	st.heap[root+"|#present"] = Store(p, m.T, Store(Select(p, m.T), k, TTrue))
	l := x.heapGet(st, root+"|#len", SInt)
	st.heap[root+"|#len"] = Store(l, m.T, Add(Select(l, m.T), Ite(was, IntLit(0), IntLit(1))))
	ls := flatten(mt.Elem())
	ts := x.valLeaves(st, v, mt.Elem())
	for i, lf := range ls {
		a := x.heapGet(st, root+"|v"+lf.Path, lf.Sort)
		st.heap[root+"|v"+lf.Path] = Store(a, m.T, Store(Select(a, m.T), k, ts[i]))
	}
}

func (x *Exec) mapDelete(st *State, m, kv *Val, mt *types.Map) {
	k := mapKeyTerm(kv)
	root := "M|" + mapKeySort(mt) + "|" + typeKey(mt)
	x.frameCheckMap(st, root, m.T, token.NoPos)
	was := x.bind(st, x.mapPresent(st, m.T, mt, k), "mwas")
	p := x.heapGet(st, root+"|#present", SBool)
	st.heap[root+"|#present"] = Store(p, m.T, Store(Select(p, m.T), k, TFalse))
	l := x.heapGet(st, root+"|#len", SInt)
	st.heap[root+"|#len"] = Store(l, m.T, Sub(Select(l, m.T), Ite(was, IntLit(1), IntLit(0))))
}

func (x *Exec) frameCheckMap(st *State, root string, ref *Term, pos token.Pos) {
	if x.discover || len(st.frames) == 0 {
		return
	}
	top := st.frames[0]
	if top.con == nil || top.con.has("noframe") || st.fresh[ref.s] {
		return
	}
	alts := []*Term{Ge(ref, x.allocBase0)}
	for _, m := range x.topMods {
		if m.all {
			return
		}
		if strings.HasPrefix(m.key, root) || (m.key == "" && m.root == root) {
			if m.whole {
				return
			}
			alts = append(alts, Eq(ref, m.base))
		}
	}
	x.check(st, Or(alts...), "frame", "map-write-within-modifies", x.site(pos), "map write permitted by modifies")
}

// map iteration: nondeterministic order, each Next yields some present key
type rangeIter struct {
	m  *Val
	mt *types.Map
	s  *Val // string
}

func (x *Exec) rangeInit(st *State, fr *Frame, in *ssa.Range) *Val {
	v := x.val(st, fr, in.X)
	it := &Val{K: kTuple, F: []*Val{v}, Typ: in.X.Type()}
	if v.K == kScalar && v.T.sort == SStr {
		// string iterator: a heap cell holding the current byte position
		ref := x.alloc(st)
		l := &Loc{Base: ref, Root: "F|$striter", Path: ".pos", T: types.Typ[types.Int]}
		x.store(st, l, scalar(IntLit(0), types.Typ[types.Int]))
		it.F = append(it.F, &Val{K: kPtr, L: l})
	}
	return it
}

func (x *Exec) rangeNext(st *State, fr *Frame, in *ssa.Next) *Val {
	it := x.val(st, fr, in.Iter)
	src := it.F[0]
	tt := in.Type().(*types.Tuple)
	if in.IsString {
		// exact for ASCII bytes (rune == byte, advance by one); a byte >= 0x80 starts a multi-byte
		// sequence: the rune is left unconstrained (>= 0x80) and the position advances by 1..4
		l := it.F[1].L
		pos := x.load(st, l, nil).T
		n := StrLen(src.T)
		ok := x.bind(st, Lt(pos, n), "rng_ok")
		code := x.bind(st, StrAtCode(src.T, pos), "rng_c")
		ascii := Lt(code, IntLit(128))
		wild := x.freshTyped(st, "rng_r", types.Typ[types.Int32])
		x.assume(st, Ge(wild.T, IntLit(128)), "non-ascii rune")
		adv := x.freshConst(st, "rng_adv", SInt)
		x.assume(st, And(Ge(adv, IntLit(1)), Le(adv, IntLit(4))), "rune width")
		r := x.bind(st, Ite(ascii, code, wild.T), "rng_rune")
		next := x.bind(st, Ite(ok, Add(pos, Ite(ascii, IntLit(1), adv)), pos), "rng_next")
		x.store(st, l, scalar(next, types.Typ[types.Int]))
		x.note("range over string: exact for ASCII bytes, runes >= 0x80 over-approximated")
		return &Val{K: kTuple, F: []*Val{scalar(ok, types.Typ[types.Bool]), scalar(pos, tt.At(1).Type()), scalar(r, tt.At(2).Type())}, Typ: tt}
	}
	mt := it.Typ.Underlying().(*types.Map)
	ok := x.freshConst(st, "rng_ok", SBool)
	var kv *Val
	if _, isInvalid := tt.At(1).Type().(*types.Basic); isInvalid && tt.At(1).Type().(*types.Basic).Kind() == types.Invalid {
		kv = x.freshTyped(st, "rng_k", mt.Key())
	} else {
		kv = x.freshTyped(st, "rng_k", mt.Key())
	}
	k := mapKeyTerm(kv)
	x.assume(st, Implies(ok, x.mapPresent(st, src.T, mt, k)), "range-map key present")
	x.assume(st, Implies(ok, Gt(x.mapLen(st, src.T, mt), IntLit(0))), "range-map nonempty")
	vv := x.mapValue(st, nil, src.T, mt, k)
	x.note("range over map: nondeterministic order, completeness of the iteration not modelled")
	return &Val{K: kTuple, F: []*Val{scalar(ok, types.Typ[types.Bool]), kv, vv}, Typ: tt}
}

// parse helper for modifies lists
func splitTopLevel(s string) []string {
	var out []string
	depth := 0
	last := 0
	for i, c := range s {
		switch c {
		case '(', '[':
			depth++
		case ')', ']':
			depth--
		case ',':
			if depth == 0 {
				out = append(out, strings.TrimSpace(s[last:i]))
				last = i + 1
			}
		}
	}
	if t := strings.TrimSpace(s[last:]); t != "" {
		out = append(out, t)
	}
	return out
}

func parseExprOrDie(s string, cl *Clause) ast.Expr {
	e, err := parser.ParseExpr(s)
	if err != nil {
		fatalf("%s:%d: cannot parse %q: %v", cl.File, cl.Line, s, err)
	}
	return e
}

// sinkGuards discharges the guard obligations ("sink "callee" requires E") of the function under
// verification at a call to callee: E is evaluated in the state of the call, before the call is
// counted. With the contract flag stopatsink the path ends there (what follows the sink cannot
// undo the call, and the guard is the only obligation of such a contract).
func (x *Exec) sinkGuards(st *State, name string, args []*Val) {
	if len(st.frames) == 0 || st.frames[0].con == nil {
		return
	}
	x.sinkArgs = args // sinkarg(i) in the guard: argument i of the call being guarded
	defer func() { x.sinkArgs = nil }()
	con := st.frames[0].con
	hit := false
	name = canonCall(name)
	for _, cl := range con.Clauses {
		if cl.Kind != "sink" || canonCall(cl.Name) != name {
			continue
		}
		hit = true
		x.sinkHit[cl.ID] = true
		t := x.evalClause(st, st.frames[0], con, cl, nil)
		x.check(st, t, "guard", cl.ID+"@"+name, "", "before calling "+name+": "+cl.Text)
	}
	if hit && con.has("stopatsink") {
		x.assume(st, TFalse, "path ends at sink "+name)
	}
}
