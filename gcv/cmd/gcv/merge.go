package main

// State merging at the immediate post-dominator of a conditional ("if-conversion" of the
// explored paths): both arms are executed under their own path condition; if each arm reaches
// the join block with exactly one state, the two states are merged with ite-terms and the
// facts learned inside an arm are kept guarded by the arm's condition.

import (
	"go/types"

	"golang.org/x/tools/go/ssa"
)

type capture struct {
	st   *State
	from *ssa.BasicBlock
	side int
}

type stopPoint struct {
	depth int
	block *ssa.BasicBlock
	caps  []capture
	side  int
}

// ---------- post-dominators ----------

var ipdomCache = map[*ssa.Function][]int{}

// ipdoms returns for every block index its immediate post-dominator block index, or -1.
func ipdoms(fn *ssa.Function) []int {
	if r, ok := ipdomCache[fn]; ok {
		return r
	}
	n := len(fn.Blocks)
	exit := n
	full := make([]bool, n+1)
	for i := range full {
		full[i] = true
	}
	pd := make([][]bool, n+1)
	for i := 0; i <= n; i++ {
		pd[i] = append([]bool(nil), full...)
	}
	pd[exit] = make([]bool, n+1)
	pd[exit][exit] = true
	changed := true
	for changed {
		changed = false
		for i := n - 1; i >= 0; i-- {
			b := fn.Blocks[i]
			nw := make([]bool, n+1)
			succs := []int{}
			for _, s := range b.Succs {
				succs = append(succs, s.Index)
			}
			if len(succs) == 0 {
				succs = []int{exit}
			}
			for k := 0; k <= n; k++ {
				all := true
				for _, s := range succs {
					if !pd[s][k] {
						all = false
						break
					}
				}
				nw[k] = all
			}
			nw[i] = true
			for k := 0; k <= n; k++ {
				if nw[k] != pd[i][k] {
					changed = true
					break
				}
			}
			pd[i] = nw
		}
	}
	count := func(s []bool) int {
		c := 0
		for _, v := range s {
			if v {
				c++
			}
		}
		return c
	}
	res := make([]int, n)
	for i := 0; i < n; i++ {
		res[i] = -1
		want := count(pd[i]) - 1
		for d := 0; d < n; d++ {
			if d != i && pd[i][d] && count(pd[d]) == want {
				res[i] = d
				break
			}
		}
	}
	ipdomCache[fn] = res
	return res
}

// ---------- conditional with merging ----------

func (x *Exec) doIf(st *State, fr *Frame, b *ssa.BasicBlock, cond *Term, label string, ret retFn) {
	thenB, elseB := b.Succs[0], b.Succs[1]
	ncond := Not(cond)
	okT := x.feasible(st, cond)
	okF := x.feasible(st, ncond)
	if !(okT && okF) {
		switch {
		case okT:
			x.assume(st, cond, label+"(implied)")
			x.enterBlock(st, st.top(), b, thenB, ret)
		case okF:
			x.assume(st, ncond, label+"(implied)")
			x.enterBlock(st, st.top(), b, elseB, ret)
		default:
			x.endPath(st, "infeasible")
		}
		return
	}
	j := -1
	li := loopsOf(fr.fn)
	noMerge := x.noMerge || (x.curCon != nil && x.curCon.has("nomerge"))
	if _, isHeader := li.headers[b.Index]; !isHeader && !noMerge {
		j = ipdoms(fr.fn)[b.Index]
		if j >= 0 {
			if _, joinIsHeader := li.headers[j]; joinIsHeader {
				// arrivals at a loop header must go through the loop logic (invariant checks,
				// back-edge cut): no merging across it
				j = -1
			}
		}
	}
	if j < 0 {
		st2 := st.clone()
		x.branch(st, cond, label, func(s *State) { x.enterBlock(s, s.top(), b, thenB, ret) })
		x.branch(st2, ncond, label, func(s *State) { x.enterBlock(s, s.top(), b, elseB, ret) })
		return
	}
	join := fr.fn.Blocks[j]
	sp := &stopPoint{depth: len(st.frames) - 1, block: join}
	base := st.clone() // S0: the state at the conditional (kept pristine)
	s1 := st
	s2 := st.clone()
	s1.stops = append(append([]*stopPoint(nil), s1.stops...), sp)
	s2.stops = append(append([]*stopPoint(nil), s2.stops...), sp)
	sp.side = 0
	x.branch(s1, cond, label, func(s *State) { x.enterBlock(s, s.top(), b, thenB, ret) })
	sp.side = 1
	x.branch(s2, ncond, label, func(s *State) { x.enterBlock(s, s.top(), b, elseB, ret) })
	if x.aborted != "" {
		return
	}
	caps := sp.caps
	for i := range caps {
		// drop the stop point from the captured states
		c := caps[i].st
		c.stops = c.stops[:len(c.stops)-1]
	}
	if len(caps) == 2 && caps[0].side != caps[1].side {
		if m := x.mergeStates(base, caps[0], caps[1], cond, join); m != nil {
			x.merged++
			x.runFrom(m, m.top(), join, countPhis(join), ret)
			return
		}
	}
	// no merge: continue every captured state separately
	for _, c := range caps {
		x.sess.Push()
		x.replayPC(base.pc, c.st.pc)
		np := x.evalPhis(c.st, c.st.top(), c.from, join)
		x.runFrom(c.st, c.st.top(), join, np, ret)
		x.sess.Pop()
		if x.aborted != "" {
			return
		}
	}
}

func countPhis(b *ssa.BasicBlock) int {
	n := 0
	for _, in := range b.Instrs {
		if _, ok := in.(*ssa.Phi); !ok {
			break
		}
		n++
	}
	return n
}

// replayPC sends the entries of pc that come after prefix to the session.
func (x *Exec) replayPC(prefix, pc *PC) {
	var es []PCEntry
	pn := 0
	if prefix != nil {
		pn = prefix.n
	}
	for c := pc; c != nil && c.n > pn; c = c.prev {
		es = append(es, c.e)
	}
	for i := len(es) - 1; i >= 0; i-- {
		x.sessAdd(es[i])
	}
}

func (x *Exec) sessAdd(e PCEntry) {
	if e.Kind == 1 && hasQuant(e.T) {
		return
	}
	x.sess.Add(e)
}

func hasQuant(t *Term) bool {
	return containsStr(t.s, "(forall ") || containsStr(t.s, "(exists ")
}

func containsStr(s, sub string) bool {
	for i := 0; i+len(sub) <= len(s); i++ {
		if s[i:i+len(sub)] == sub {
			return true
		}
	}
	return false
}

func pcSuffix(prefix, pc *PC) []PCEntry {
	pn := 0
	if prefix != nil {
		pn = prefix.n
	}
	var es []PCEntry
	for c := pc; c != nil && c.n > pn; c = c.prev {
		es = append(es, c.e)
	}
	for i, j := 0, len(es)-1; i < j; i, j = i+1, j-1 {
		es[i], es[j] = es[j], es[i]
	}
	return es
}

// mergeStates builds the state ite(cond, a, b) at the join block; nil if incompatible.
func (x *Exec) mergeStates(base *State, ca, cb capture, cond *Term, join *ssa.BasicBlock) *State {
	if ca.side == 1 {
		ca, cb = cb, ca
	}
	a, b := ca.st, cb.st
	if a.epoch != base.epoch || b.epoch != base.epoch || a.allocBase.s != base.allocBase.s || b.allocBase.s != base.allocBase.s {
		return nil
	}
	if len(a.frames) != len(base.frames) || len(b.frames) != len(base.frames) {
		return nil
	}
	fa, fb := a.top(), b.top()
	if len(fa.defers) != len(fb.defers) {
		return nil
	}
	if a.bounded != b.bounded {
		return nil
	}
	ncond := Not(cond)
	m := base.clone()
	// path condition: common prefix + guarded suffixes
	add := func(es []PCEntry, guard *Term) {
		for _, e := range es {
			switch e.Kind {
			case 0:
				if !m.declared[e.Name] {
					m.declared[e.Name] = true
					m.pc = m.pc.Push(e)
					x.sess.Add(e)
				}
			case 2:
				if !m.declared[e.Name] {
					m.declared[e.Name] = true
					m.pc = m.pc.Push(e)
					x.sess.Add(e)
				}
			case 1:
				if e.Label == "def" || e.Label == "def-heap" || e.Label == "alloc" {
					// definitions of fresh names are unconditional
					m.pc = m.pc.Push(e)
					x.sessAdd(e)
					continue
				}
				g := PCEntry{Kind: 1, T: Implies(guard, e.T), Label: e.Label + "(guarded)"}
				m.pc = m.pc.Push(g)
				x.sessAdd(g)
			}
		}
	}
	ea, eb := pcSuffix(base.pc, a.pc), pcSuffix(base.pc, b.pc)
	// the first assertion of each suffix is the branch condition itself: skip it
	add(dropFirstAssert(ea, cond), cond)
	add(dropFirstAssert(eb, ncond), ncond)
	// heap
	keys := map[string]bool{}
	for k := range a.heap {
		keys[k] = true
	}
	for k := range b.heap {
		keys[k] = true
	}
	for k := range keys {
		va, oka := a.heap[k]
		vb, okb := b.heap[k]
		var srt string
		if oka {
			srt = va.sort
		} else {
			srt = vb.sort
		}
		if !oka {
			va = x.declare(m, epochName(x, m.epoch, k), srt)
		}
		if !okb {
			vb = x.declare(m, epochName(x, m.epoch, k), srt)
		}
		if va.s == vb.s {
			m.heap[k] = va
		} else {
			m.heap[k] = Ite(cond, va, vb)
		}
	}
	if a.allocK > m.allocK {
		m.allocK = a.allocK
	}
	if b.allocK > m.allocK {
		m.allocK = b.allocK
	}
	for k := range a.fresh {
		m.fresh[k] = true
	}
	for k := range b.fresh {
		m.fresh[k] = true
	}
	// ghost state
	gk := map[string]bool{}
	for k := range a.ghost {
		gk[k] = true
	}
	for k := range b.ghost {
		gk[k] = true
	}
	for k := range gk {
		va, oka := a.ghost[k]
		vb, okb := b.ghost[k]
		if len(k) > 7 && k[:7] == "ncalls:" {
			if !oka {
				va = IntLit(0)
			}
			if !okb {
				vb = IntLit(0)
			}
			m.ghost[k] = Ite(cond, va, vb)
		} else if oka && okb && va.sort == vb.sort {
			m.ghost[k] = Ite(cond, va, vb)
		} else if oka && okb && len(k) > 8 && (k[:8] == "lastarg:" || k[:8] == "lastret:") && (va.sort == SInt || vb.sort == SInt) {
			// one side still holds the integer placeholder of a loop head (no call on that side
			// since): any value of the recorded sort stands in
			if va.sort == SInt {
				m.ghost[k] = Ite(cond, x.freshConst(m, "nocall", vb.sort), vb)
			} else {
				m.ghost[k] = Ite(cond, va, x.freshConst(m, "nocall", va.sort))
			}
		} else if (oka != okb) && len(k) > 8 && (k[:8] == "lastarg:" || k[:8] == "lastret:") {
			// recorded on one side only: the other side has no such call, any value stands in
			if oka {
				m.ghost[k] = Ite(cond, va, x.freshConst(m, "nocall", va.sort))
			} else {
				m.ghost[k] = Ite(cond, x.freshConst(m, "nocall", vb.sort), vb)
			}
		} else {
			delete(m.ghost, k)
		}
	}
	m.calls = append(append([]string(nil), a.calls...), b.calls[len(base.calls):]...)
	// registers: evaluate the join's phis on each side, then merge
	fr := m.top()
	x.evalPhis(a, fa, ca.from, join)
	x.evalPhis(b, fb, cb.from, join)
	for _, in := range join.Instrs {
		phi, ok := in.(*ssa.Phi)
		if !ok {
			break
		}
		va, vb := fa.regs[phi], fb.regs[phi]
		mv := x.mergeValSafe(m, cond, va, vb, phi.Type())
		if mv == nil {
			return nil
		}
		fr.regs[phi] = mv
		if phi.Comment != "" {
			fr.names[phi.Comment] = mv
		}
	}
	// other registers defined inside an arm are dead after the join (SSA dominance); keep the
	// ones both arms agree on
	for k, v := range fa.regs {
		if _, ok := fr.regs[k]; !ok {
			fr.regs[k] = v
		}
	}
	for k, v := range fb.regs {
		if _, ok := fr.regs[k]; !ok {
			fr.regs[k] = v
		}
	}
	// source-level names
	for k, va := range fa.names {
		vb, ok := fb.names[k]
		if _, isPhiName := fr.names[k]; isPhiName && fr.names[k] != base.top().names[k] {
			continue
		}
		if !ok {
			delete(fr.names, k)
			continue
		}
		if va == vb {
			fr.names[k] = va
			continue
		}
		if va.Typ != nil && vb.Typ != nil && va.K == vb.K {
			if mv := x.mergeValSafe(m, cond, va, vb, va.Typ); mv != nil {
				fr.names[k] = mv
				continue
			}
		}
		delete(fr.names, k)
	}
	for k, v := range fa.lets {
		fr.lets[k] = v
	}
	fr.defers = fa.defers
	return m
}

func epochName(x *Exec, epoch int, key string) string {
	return "H" + itoa(epoch) + "_" + x.heapSym(key)
}

func itoa(i int) string {
	if i == 0 {
		return "0"
	}
	s := ""
	for i > 0 {
		s = string(rune('0'+i%10)) + s
		i /= 10
	}
	return s
}

func dropFirstAssert(es []PCEntry, cond *Term) []PCEntry {
	for i, e := range es {
		if e.Kind == 1 && e.T.s == cond.s {
			out := append([]PCEntry(nil), es[:i]...)
			return append(out, es[i+1:]...)
		}
	}
	return es
}

func (x *Exec) mergeValSafe(st *State, c *Term, a, b *Val, t types.Type) (r *Val) {
	defer func() {
		if e := recover(); e != nil {
			if _, ok := e.(unsupported); ok {
				r = nil
				return
			}
			panic(e)
		}
	}()
	return x.mergeVal(st, c, a, b, t)
}

func (x *Exec) mergeVal(st *State, c *Term, a, b *Val, t types.Type) *Val {
	if a == b {
		return a
	}
	if a == nil || b == nil {
		return nil
	}
	if a.K == kPtr && b.K == kPtr {
		if a.L.Root != b.L.Root || a.L.Path != b.L.Path || (a.L.Idx == nil) != (b.L.Idx == nil) {
			return nil
		}
		l := &Loc{Base: x.bind(st, Ite(c, a.L.Base, b.L.Base), "mptr"), Root: a.L.Root, Path: a.L.Path, T: a.L.T}
		if a.L.Idx != nil {
			l.Idx = x.bind(st, Ite(c, a.L.Idx, b.L.Idx), "midx")
		}
		return &Val{K: kPtr, L: l, Typ: a.Typ}
	}
	if a.K == kFunc || b.K == kFunc {
		if a.K == b.K && a.Fn == b.Fn && len(a.Bind) == len(b.Bind) {
			for i := range a.Bind {
				if a.Bind[i] != b.Bind[i] {
					return nil
				}
			}
			return a
		}
		return nil
	}
	if t == nil {
		return nil
	}
	return x.iteVal(st, c, a, b, t)
}
