package main

import (
	"encoding/json"
	"fmt"
	"os"
	"path/filepath"
	"strings"
)

// known_findings.json: committed, never written at run time.
type KnownFinding struct {
	Property   string `json:"property"`
	Obligation string `json:"obligation"` // exact obligation name
	Tags       string `json:"tags,omitempty"` // optional: only under this tag set
	What       string `json:"what"`
	Status     string `json:"status"` // "open" or "fixed"
	Commit     string `json:"commit,omitempty"`
}

type KnownFindings struct {
	Findings []KnownFinding `json:"findings"`
	Fixed    []string       `json:"fixed"`
}

func loadKnownFindings(verif string) *KnownFindings {
	kf := &KnownFindings{}
	data, err := os.ReadFile(filepath.Join(verif, "known_findings.json"))
	if err != nil {
		return kf
	}
	if err := json.Unmarshal(data, kf); err != nil {
		fatalf("known_findings.json: %v", err)
	}
	return kf
}

func (k *KnownFindings) match(prop, oblig, tags string) *KnownFinding {
	for i := range k.Findings {
		f := &k.Findings[i]
		if f.Status != "open" || f.Property != prop || f.Obligation != oblig {
			continue
		}
		if f.Tags != "" && f.Tags != tags {
			continue
		}
		return f
	}
	return nil
}

type ReplayResult struct {
	Attempted  bool   `json:"attempted"`
	Reproduced bool   `json:"reproduced"`
	Note       string `json:"note"`
	Output     string `json:"output,omitempty"`
	TestFile   string `json:"test_file,omitempty"`
}

func cmdSelftest(args []string) {
	fmt.Println("selftest: not implemented yet")
}

func cmdReplay(args []string) {
	if len(args) < 1 {
		fatalf("replay: path required")
	}
	data, err := os.ReadFile(args[0])
	if err != nil {
		fatalf("%v", err)
	}
	var rp map[string]interface{}
	json.Unmarshal(data, &rp)
	fmt.Printf("obligation: %v\nfunction: %v\nverdict: %v\ninputs: %v\n", rp["obligation"], rp["function"], rp["verdict"], rp["inputs"])
	if r, ok := rp["replay"].(map[string]interface{}); ok {
		fmt.Printf("replay: reproduced=%v note=%v\n%v\n", r["reproduced"], r["note"], r["output"])
	}
	_ = strings.TrimSpace
}
