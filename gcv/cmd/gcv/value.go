package main

// Symbolic values, type flattening, heap access.

import (
	"fmt"
	"go/types"
	"math/big"
	"regexp"
	"strings"

	"golang.org/x/tools/go/ssa"
)

type valKind int

const (
	kScalar valKind = iota // Int/Bool/String/Real term; also map/chan refs
	kPtr
	kStruct
	kArray
	kSlice
	kIface
	kFunc
	kTuple
	kNil // untyped nil (spec expressions only)
)

type Loc struct {
	Base *Term      // object ref (Int); for elements: the backing array ref
	Root string     // heap key prefix, e.g. "F|pkg.T" (object) or "E|byte" (slice element)
	Path string     // leaf path prefix inside the root
	Idx  *Term      // absolute element index (elements only)
	T    types.Type // pointee type
}

type Val struct {
	K                  valKind
	T                  *Term
	F                  []*Val
	Arr, Off, Len, Cap *Term
	Tag, Ptr           *Term
	L                  *Loc
	Fn                 *ssa.Function
	Bind               []*Val
	Typ                types.Type
}

func scalar(t *Term, typ types.Type) *Val { return &Val{K: kScalar, T: t, Typ: typ} }

func (v *Val) String() string {
	if v == nil {
		return "<nil-val>"
	}
	switch v.K {
	case kScalar:
		return v.T.s
	case kPtr:
		s := "&" + v.L.Root + "[" + v.L.Base.s + "]" + v.L.Path
		if v.L.Idx != nil {
			s += "@" + v.L.Idx.s
		}
		return s
	case kStruct, kArray, kTuple:
		var p []string
		for _, f := range v.F {
			p = append(p, f.String())
		}
		return "{" + strings.Join(p, ", ") + "}"
	case kSlice:
		return fmt.Sprintf("slice(arr=%s off=%s len=%s cap=%s)", v.Arr, v.Off, v.Len, v.Cap)
	case kIface:
		return fmt.Sprintf("iface(tag=%s ptr=%s)", v.Tag, v.Ptr)
	case kFunc:
		if v.Fn != nil {
			return "func " + v.Fn.String()
		}
		return "func?" + v.T.s
	case kNil:
		return "nil"
	}
	return "?"
}

// ---------- integer type ranges ----------

var (
	maxAddr = pow2(47) // platform fact: no object is larger than the address space
)

func intRange(b *types.Basic) (lo, hi *big.Int, ok bool) {
	switch b.Kind() {
	case types.Int8:
		return bigI(-128), bigI(127), true
	case types.Int16:
		return bigI(-32768), bigI(32767), true
	case types.Int32, types.UntypedRune:
		return bigI(-1 << 31), bigI(1<<31 - 1), true
	case types.Int, types.Int64, types.UntypedInt:
		return new(big.Int).Neg(pow2(63)), new(big.Int).Sub(pow2(63), bigI(1)), true
	case types.Uint8:
		return bigI(0), bigI(255), true
	case types.Uint16:
		return bigI(0), bigI(65535), true
	case types.Uint32:
		return bigI(0), bigI(1<<32 - 1), true
	case types.Uint, types.Uint64, types.Uintptr:
		return bigI(0), new(big.Int).Sub(pow2(64), bigI(1)), true
	}
	return nil, nil, false
}

func intBits(b *types.Basic) (bits uint, signed bool) {
	switch b.Kind() {
	case types.Int8:
		return 8, true
	case types.Int16:
		return 16, true
	case types.Int32, types.UntypedRune:
		return 32, true
	case types.Int, types.Int64, types.UntypedInt:
		return 64, true
	case types.Uint8:
		return 8, false
	case types.Uint16:
		return 16, false
	case types.Uint32:
		return 32, false
	case types.Uint, types.Uint64, types.Uintptr:
		return 64, false
	}
	return 0, false
}

func isIntType(t types.Type) (*types.Basic, bool) {
	b, ok := t.Underlying().(*types.Basic)
	if !ok {
		return nil, false
	}
	if b.Info()&types.IsInteger != 0 {
		return b, true
	}
	return nil, false
}

// wrapTo reduces a mathematical integer term to the machine range of b.
func wrapTo(t *Term, b *types.Basic) *Term {
	lo, hi, ok := intRange(b)
	if !ok {
		return t
	}
	if knownIn(t, lo, hi) {
		return t
	}
	bits, signed := intBits(b)
	m := IntLitBig(pow2(bits))
	if !signed {
		return EMod(t, m)
	}
	half := IntLitBig(pow2(bits - 1))
	r := Sub(EMod(Add(t, half), m), half)
	return WithBounds(r, lo, hi)
}

// ---------- flattening ----------

type leaf struct {
	Path string
	Sort string
	Typ  types.Type // type of the leaf (basic / pointer / etc); nil for components
	Comp string     // "", "arr","off","len","cap","tag","ptr"
}

func sortOfBasic(b *types.Basic) string {
	switch {
	case b.Info()&types.IsInteger != 0:
		return SInt
	case b.Info()&types.IsBoolean != 0:
		return SBool
	case b.Info()&types.IsString != 0:
		return SStr
	case b.Info()&types.IsFloat != 0:
		return "Real"
	case b.Kind() == types.UnsafePointer:
		return SInt
	case b.Kind() == types.UntypedNil:
		return SInt
	}
	return SInt
}

var flattenCache = map[string][]leaf{}

const maxFlatArray = 32

func flatten(t types.Type) []leaf {
	key := typeKey(t)
	if l, ok := flattenCache[key]; ok {
		return l
	}
	var out []leaf
	switch u := t.Underlying().(type) {
	case *types.Basic:
		out = []leaf{{Path: "", Sort: sortOfBasic(u), Typ: t}}
	case *types.Pointer, *types.Map, *types.Chan, *types.Signature:
		out = []leaf{{Path: "", Sort: SInt, Typ: t}}
	case *types.Slice:
		out = []leaf{{"#arr", SInt, nil, "arr"}, {"#off", SInt, nil, "off"}, {"#len", SInt, nil, "len"}, {"#cap", SInt, nil, "cap"}}
	case *types.Interface:
		out = []leaf{{"#tag", SInt, nil, "tag"}, {"#ptr", SInt, nil, "ptr"}}
	case *types.Struct:
		for i := 0; i < u.NumFields(); i++ {
			f := u.Field(i)
			for _, l := range flatten(f.Type()) {
				l.Path = "." + f.Name() + l.Path
				out = append(out, l)
			}
		}
	case *types.Array:
		n := int(u.Len())
		if n > maxFlatArray {
			panic(unsupported{"large fixed array " + t.String()})
		}
		for i := 0; i < n; i++ {
			for _, l := range flatten(u.Elem()) {
				l.Path = fmt.Sprintf("[%d]", i) + l.Path
				out = append(out, l)
			}
		}
	case *types.Tuple:
		for i := 0; i < u.Len(); i++ {
			for _, l := range flatten(u.At(i).Type()) {
				l.Path = fmt.Sprintf("~%d", i) + l.Path
				out = append(out, l)
			}
		}
	default:
		panic(unsupported{"flatten: " + t.String()})
	}
	flattenCache[key] = out
	return out
}

type unsupported struct{ what string }

func typeKey(t types.Type) string {
	s := types.TypeString(t, func(p *types.Package) string {
		pp := p.Path()
		pp = strings.TrimPrefix(pp, modPath+"weed/")
		return pp
	})
	// byte/uint8 and rune/int32 are the same types: one heap must serve both spellings
	if strings.Contains(s, "byte") || strings.Contains(s, "rune") {
		s = reByte.ReplaceAllString(s, "uint8")
		s = reRune.ReplaceAllString(s, "int32")
	}
	return s
}

var (
	reByte = regexp.MustCompile(`\bbyte\b`)
	reRune = regexp.MustCompile(`\brune\b`)
)

// valLeaves returns the leaf terms of v in flatten order.
func (x *Exec) valLeaves(st *State, v *Val, t types.Type) []*Term {
	switch u := t.Underlying().(type) {
	case *types.Basic:
		if v.K == kNil {
			return []*Term{IntLit(0)}
		}
		return []*Term{v.T}
	case *types.Pointer:
		if v.K == kNil {
			return []*Term{IntLit(0)}
		}
		if v.K == kScalar {
			return []*Term{v.T}
		}
		if v.L.Path != "" || v.L.Idx != nil {
			panic(unsupported{"interior pointer escapes to heap: " + v.String()})
		}
		return []*Term{v.L.Base}
	case *types.Map, *types.Chan:
		if v.K == kNil {
			return []*Term{IntLit(0)}
		}
		return []*Term{v.T}
	case *types.Signature:
		if v.K == kNil {
			return []*Term{IntLit(0)}
		}
		if v.K == kFunc && v.Fn != nil {
			return []*Term{IntLit(x.funcID(v))}
		}
		return []*Term{v.T}
	case *types.Slice:
		if v.K == kNil {
			z := IntLit(0)
			return []*Term{z, z, z, z}
		}
		return []*Term{v.Arr, v.Off, v.Len, v.Cap}
	case *types.Interface:
		if v.K == kNil {
			return []*Term{IntLit(0), IntLit(0)}
		}
		return []*Term{v.Tag, v.Ptr}
	case *types.Struct:
		var out []*Term
		for i := 0; i < u.NumFields(); i++ {
			out = append(out, x.valLeaves(st, v.F[i], u.Field(i).Type())...)
		}
		return out
	case *types.Array:
		var out []*Term
		for i := 0; i < int(u.Len()); i++ {
			out = append(out, x.valLeaves(st, v.F[i], u.Elem())...)
		}
		return out
	case *types.Tuple:
		var out []*Term
		for i := 0; i < u.Len(); i++ {
			out = append(out, x.valLeaves(st, v.F[i], u.At(i).Type())...)
		}
		return out
	}
	panic(unsupported{"valLeaves: " + t.String()})
}

// leavesVal rebuilds a value of type t from leaf terms; returns number consumed.
func (x *Exec) leavesVal(t types.Type, ls []*Term) (*Val, int) {
	switch u := t.Underlying().(type) {
	case *types.Basic:
		tm := ls[0]
		if b, ok := isIntType(t); ok {
			lo, hi, _ := intRange(b)
			tm = WithBounds(tm, lo, hi)
		}
		return scalar(tm, t), 1
	case *types.Pointer:
		return x.ptrVal(ls[0], u.Elem(), t), 1
	case *types.Map, *types.Chan:
		return scalar(ls[0], t), 1
	case *types.Signature:
		if ls[0].lit != nil && ls[0].lit.IsInt64() {
			if fv := x.funcByID(ls[0].lit.Int64()); fv != nil {
				return fv, 1
			}
		}
		return &Val{K: kFunc, T: ls[0], Typ: t}, 1
	case *types.Slice:
		return &Val{K: kSlice, Arr: ls[0], Off: WithBounds(ls[1], bigI(0), maxAddr), Len: WithBounds(ls[2], bigI(0), maxAddr), Cap: WithBounds(ls[3], bigI(0), maxAddr), Typ: t}, 4
	case *types.Interface:
		return &Val{K: kIface, Tag: ls[0], Ptr: ls[1], Typ: t}, 2
	case *types.Struct:
		v := &Val{K: kStruct, Typ: t}
		n := 0
		for i := 0; i < u.NumFields(); i++ {
			f, k := x.leavesVal(u.Field(i).Type(), ls[n:])
			v.F = append(v.F, f)
			n += k
		}
		return v, n
	case *types.Array:
		v := &Val{K: kArray, Typ: t}
		n := 0
		for i := 0; i < int(u.Len()); i++ {
			f, k := x.leavesVal(u.Elem(), ls[n:])
			v.F = append(v.F, f)
			n += k
		}
		return v, n
	case *types.Tuple:
		v := &Val{K: kTuple, Typ: t}
		n := 0
		for i := 0; i < u.Len(); i++ {
			f, k := x.leavesVal(u.At(i).Type(), ls[n:])
			v.F = append(v.F, f)
			n += k
		}
		return v, n
	}
	panic(unsupported{"leavesVal: " + t.String()})
}

func (x *Exec) ptrVal(base *Term, elem types.Type, ptrType types.Type) *Val {
	return &Val{K: kPtr, L: &Loc{Base: base, Root: "F|" + typeKey(elem), T: elem}, Typ: ptrType}
}

// zeroVal builds the zero value of t.
func (x *Exec) zeroVal(t types.Type) *Val {
	ls := flatten(t)
	ts := make([]*Term, len(ls))
	for i, l := range ls {
		switch l.Sort {
		case SInt:
			ts[i] = IntLit(0)
		case SBool:
			ts[i] = TFalse
		case SStr:
			ts[i] = StrLit("")
		case "Real":
			ts[i] = &Term{s: "0.0", sort: "Real"}
		default:
			panic(unsupported{"zero of sort " + l.Sort})
		}
	}
	v, _ := x.leavesVal(t, ts)
	return v
}

// ---------- closures as literal ids ----------

func (x *Exec) funcID(v *Val) int64 {
	for i, f := range x.funcs {
		if f == v {
			return int64(1000000 + i)
		}
	}
	x.funcs = append(x.funcs, v)
	return int64(1000000 + len(x.funcs) - 1)
}

func (x *Exec) funcByID(id int64) *Val {
	i := id - 1000000
	if i >= 0 && int(i) < len(x.funcs) {
		return x.funcs[i]
	}
	return nil
}
