package main

// Hypothesis slicing: a goal that the solvers cannot decide with the full path condition is
// retried with only the k most relevant quantified hypotheses (all quantifier-free facts are
// kept). Dropping hypotheses is sound for proving: unsat of a subset implies unsat of the whole.
// A sat/unknown answer of a sliced query means nothing and is ignored.

import (
	"context"
	"fmt"
	"os"
	"regexp"
	"sort"
	"strings"
	"time"
)

// sliceSem bounds the number of concurrently running sliced solver processes.
var sliceSem = make(chan struct{}, 24)

var symRe = regexp.MustCompile(`[A-Za-z_][A-Za-z0-9_.!$|%-]*`)

var smtWords = map[string]bool{"assert": true, "forall": true, "exists": true, "select": true, "store": true, "and": true, "or": true,
	"not": true, "ite": true, "Int": true, "Bool": true, "Array": true, "as": true, "const": true, "let": true, "div": true, "mod": true,
	"true": true, "false": true, "pattern": true, "String": true, "abs": true, "distinct": true}

func symsOf(s string) map[string]bool {
	out := map[string]bool{}
	for _, m := range symRe.FindAllString(s, -1) {
		if !smtWords[m] && !strings.Contains(m, "!q") && !strings.HasPrefix(m, "str.") {
			out[m] = true
		}
	}
	return out
}

// sliceBodies returns query bodies that keep only the k most relevant quantified hypotheses.
func sliceBodies(entries []PCEntry, goal string) (bodies []string, labels []string) {
	type qh struct {
		idx   int
		score float64
	}
	var qs []qh
	df := map[string]int{}
	symsAt := make([]map[string]bool, len(entries))
	for i, e := range entries {
		if e.Kind != 1 {
			continue
		}
		symsAt[i] = symsOf(e.T.s)
		for s := range symsAt[i] {
			df[s]++
		}
	}
	gs := symsOf(goal)
	// one step of closure: symbols defined by quantifier-free equalities the goal mentions are relevant too
	for i, e := range entries {
		if e.Kind == 1 && !strings.Contains(e.T.s, "forall") && len(e.T.s) < 400 {
			shared := false
			for s := range symsAt[i] {
				if gs[s] && df[s] < 12 {
					shared = true
					break
				}
			}
			if shared {
				for s := range symsAt[i] {
					gs[s] = true
				}
			}
		}
	}
	for i, e := range entries {
		if e.Kind != 1 || !(strings.Contains(e.T.s, "forall") || strings.Contains(e.T.s, "exists")) {
			continue
		}
		sc := 0.0
		for s := range symsAt[i] {
			if gs[s] {
				sc += 1.0 / float64(df[s])
			}
		}
		qs = append(qs, qh{i, sc})
	}
	if len(qs) == 0 {
		return nil, nil
	}
	sort.SliceStable(qs, func(a, b int) bool { return qs[a].score > qs[b].score })
	if os.Getenv("GCV_SLICEDEBUG") != "" {
		for _, q := range qs {
			t := entries[q.idx].T.s
			if len(t) > 100 {
				t = t[:100]
			}
			fmt.Fprintf(os.Stderr, "slice: %.3f %s\n", q.score, t)
		}
		fmt.Fprintf(os.Stderr, "slice: goal %.200s\n", goal)
	}
	isQ := func(e PCEntry) bool {
		return e.Kind == 1 && (strings.Contains(e.T.s, "forall") || strings.Contains(e.T.s, "exists"))
	}
	build := func(keep map[int]bool) string {
		var b strings.Builder
		for i, e := range entries {
			if isQ(e) && !keep[i] {
				continue
			}
			b.WriteString(e.SMT())
			b.WriteByte('\n')
		}
		b.WriteString("(assert (not " + goal + "))\n")
		return b.String()
	}
	// family A: the k most relevant of all quantified hypotheses
	for _, k := range []int{0, 1, 2, 3, 5, 8} {
		if k >= len(qs) {
			continue
		}
		keep := map[int]bool{}
		for _, q := range qs[:k] {
			keep[q.idx] = true
		}
		bodies = append(bodies, build(keep))
		labels = append(labels, fmt.Sprintf("k=%d/%d", k, len(qs)))
	}
	// family B: the same without goals that were proved earlier on this path and then assumed
	// (they repeat the shape of the goal and attract the instantiation engine)
	var qb []qh
	for _, q := range qs {
		if !strings.HasPrefix(entries[q.idx].Label, "checked:") {
			qb = append(qb, q)
		}
	}
	if len(qb) < len(qs) {
		for _, k := range []int{1, 2, 3, 5, len(qb)} {
			if k > len(qb) || (k == len(qb) && k <= 5 && k != len(qb)) {
				continue
			}
			keep := map[int]bool{}
			for _, q := range qb[:k] {
				keep[q.idx] = true
			}
			bodies = append(bodies, build(keep))
			labels = append(labels, fmt.Sprintf("k=%d/%d-unchecked", k, len(qb)))
		}
	}
	return
}

// dischargeSliced races the sliced variants on z3-new; only unsat counts.
func dischargeSliced(parent context.Context, entries []PCEntry, goal string, timeoutMs int) (bool, string, float64) {
	bodies, labels := sliceBodies(entries, goal)
	if len(bodies) == 0 {
		return false, "", 0
	}
	start := time.Now()
	ctx, cancel := context.WithCancel(parent)
	defer cancel()
	type r struct {
		ok    bool
		label string
	}
	ch := make(chan r, len(bodies))
	for i := range bodies {
		i := i
		go func() {
			sliceSem <- struct{}{}
			defer func() { <-sliceSem }()
			if ctx.Err() != nil {
				ch <- r{false, labels[i]}
				return
			}
			v, _, _ := runSolver(ctx, "z3-new", scriptFor("z3-new", bodies[i], timeoutMs, false), timeoutMs)
			ch <- r{v == Unsat, labels[i]}
		}()
	}
	for range bodies {
		x := <-ch
		if x.ok {
			return true, x.label, time.Since(start).Seconds()
		}
	}
	return false, "", time.Since(start).Seconds()
}
