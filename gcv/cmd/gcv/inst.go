package main

// Ground instantiation of universally quantified hypotheses (a small E-matching step of our own).
//
// Contracts state facts about all elements of a slice - forall(k, lo, hi, P(s[k])) - and the
// element s[k] is the array read (select (select E arr) (+ off k)). With an offset in the index
// the solvers' own trigger inference finds nothing to match on, and with the theory of strings in
// the same query they give up ("unknown") instead of instantiating. Before an obligation is sent,
// every such hypothesis is therefore instantiated for the element indices that actually occur in
// the goal and in the quantifier-free part of the path condition (for the same backing array), and
// a goal of the form (forall k. B) is skolemised first so that its own element reads are ground.
// The quantified hypotheses stay in the query; the instances are consequences of them, so adding
// them is sound, and the step cannot make a query pass that has a counterexample.

import (
	"fmt"
	"strings"
	"sync"
)

var instMu sync.Mutex

const maxInstPerQuant = 24
const maxInstTotal = 240

// replaceToken replaces whole-token occurrences of name (e.g. k!q12) in s.
func replaceToken(s, name, by string) string {
	if !strings.Contains(s, name) {
		return s
	}
	var b strings.Builder
	for i := 0; i < len(s); {
		j := strings.Index(s[i:], name)
		if j < 0 {
			b.WriteString(s[i:])
			break
		}
		j += i
		end := j + len(name)
		okL := j == 0 || strings.ContainsRune(" ()", rune(s[j-1]))
		okR := end == len(s) || strings.ContainsRune(" ()", rune(s[end]))
		b.WriteString(s[i:j])
		if okL && okR {
			b.WriteString(by)
		} else {
			b.WriteString(name)
		}
		i = end
	}
	return b.String()
}

type qhyp struct {
	guard *Term // nil or the antecedent the quantifier sits under
	q     *Term // the forall term
}

// collectHyps finds universally quantified conjuncts of a hypothesis (possibly under one guard).
func collectHyps(t *Term, guard *Term, out *[]qhyp) {
	if t == nil {
		return
	}
	switch t.op {
	case "forall":
		if len(t.qvars) == 1 && t.qvars[0][1] == SInt {
			*out = append(*out, qhyp{guard: guard, q: t})
		}
	case "and":
		for _, a := range t.args {
			collectHyps(a, guard, out)
		}
	case "=>":
		if len(t.args) == 2 && guard == nil && !strings.Contains(t.args[0].s, "!q") {
			collectHyps(t.args[1], t.args[0], out)
		}
	}
}

// arrayKey names the backing array of an element read: for (select (select E arr) i) it is arr
// (whatever heap version E is), otherwise the array term itself.
func arrayKey(arr *Term) string {
	if arr.op == "select" && len(arr.args) == 2 {
		return expandAliases(arr.args[1].s)
	}
	return expandAliases(arr.s)
}

// Loaded values are bound to names (ld!7 = (select H f x)); hypotheses written over the heap
// terms and reads made through the bound names denote the same arrays. Keys and offsets are
// compared after the names are replaced by their definitions. The table is per goroutine-local
// call of instantiate (set and cleared there under instMu).
var instAliases map[string]string

func expandAliases(s string) string {
	if instAliases == nil || !strings.Contains(s, "ld") {
		return s
	}
	for round := 0; round < 4; round++ {
		changed := false
		for name, def := range instAliases {
			if strings.Contains(s, name) {
				ns := replaceToken(s, name, def)
				if ns != s {
					s = ns
					changed = true
				}
			}
		}
		if !changed {
			break
		}
	}
	return s
}

// indexPatterns lists (array key, offset) of the reads in body whose index is v or (+ off v).
func indexPatterns(body *Term, v string, out map[string]string) {
	if body == nil || !strings.Contains(body.s, v) {
		return
	}
	if body.op == "select" && len(body.args) == 2 && strings.Contains(body.args[1].s, v) {
		idx := body.args[1]
		if idx.s == v {
			out[arrayKey(body.args[0])+"\x00"] = ""
		} else if idx.op == "+" && len(idx.args) == 2 {
			if idx.args[1].s == v && !strings.Contains(idx.args[0].s, "!q") {
				o := expandAliases(idx.args[0].s)
				out[arrayKey(body.args[0])+"\x00"+o] = o
			} else if idx.args[0].s == v && !strings.Contains(idx.args[1].s, "!q") {
				o := expandAliases(idx.args[1].s)
				out[arrayKey(body.args[0])+"\x00"+o] = o
			}
		}
	}
	for _, a := range body.args {
		indexPatterns(a, v, out)
	}
}

// groundReads collects, per array key, the index terms of element reads outside quantifiers.
func groundReads(t *Term, out map[string]map[string]bool) {
	if t == nil || t.op == "forall" || t.op == "exists" {
		return
	}
	if t.op == "select" && len(t.args) == 2 && t.args[1].sort == SInt && !strings.Contains(t.args[1].s, "!q") {
		k := arrayKey(t.args[0])
		if out[k] == nil {
			out[k] = map[string]bool{}
		}
		out[k][expandAliases(t.args[1].s)] = true
	}
	for _, a := range t.args {
		groundReads(a, out)
	}
}

func pcHasQuant(pc *PC) bool {
	for _, e := range pc.Entries() {
		if e.Kind == 1 && e.T != nil && strings.Contains(e.T.s, "(forall ") {
			return true
		}
	}
	return false
}

// substTree applies the token replacement to every node of t (structure preserved).
func substTree(t *Term, name, by string) *Term {
	if t == nil || !strings.Contains(t.s, name) {
		return t
	}
	nt := &Term{s: replaceToken(t.s, name, by), sort: t.sort, lit: t.lit, blit: t.blit, slit: t.slit, op: t.op, qvars: t.qvars}
	for _, a := range t.args {
		nt.args = append(nt.args, substTree(a, name, by))
	}
	return nt
}

// instantiate returns extra SMT commands (declarations and asserted instances) for an obligation
// and the possibly skolemised goal text.
func instantiate(entries []PCEntry, goal *Term) (extra []string, goalText string) {
	instMu.Lock()
	defer instMu.Unlock()
	instAliases = map[string]string{}
	defer func() { instAliases = nil }()
	for _, e := range entries {
		if e.Kind == 1 && e.T != nil && e.T.op == "=" && len(e.T.args) == 2 && len(e.T.args[0].args) == 0 && strings.HasPrefix(e.T.args[0].s, "ld") && len(e.T.args[1].s) < 400 {
			instAliases[e.T.args[0].s] = e.T.args[1].s
		}
	}
	n := 0
	// skolemise the goal (structure-preserving): universal quantifiers in positive position - the
	// goal itself, conjuncts of it, consequents of implications in it - get fresh constants (the
	// negated goal asks for one counterexample index each)
	var skolemGoal func(t *Term) *Term
	skolemGoal = func(t *Term) *Term {
		if t == nil || !strings.Contains(t.s, "(forall ") {
			return t
		}
		switch t.op {
		case "forall":
			if len(t.qvars) > 0 && len(t.args) == 1 {
				body := t.args[0]
				for _, v := range t.qvars {
					n++
					sk := fmt.Sprintf("sk!%d!%s", n, strings.ReplaceAll(v[0], "!", "_"))
					extra = append(extra, "(declare-const "+sk+" "+v[1]+")")
					body = substTree(body, v[0], sk)
				}
				return skolemGoal(body)
			}
		case "and":
			var as []*Term
			for _, a := range t.args {
				as = append(as, skolemGoal(a))
			}
			return app(SBool, "and", as...)
		case "=>":
			if len(t.args) == 2 {
				return app(SBool, "=>", t.args[0], skolemGoal(t.args[1]))
			}
		}
		return t
	}
	g := skolemGoal(goal)
	goalText = g.s

	var hyps []qhyp
	reads := map[string]map[string]bool{}
	for _, e := range entries {
		if e.Kind != 1 || e.T == nil {
			continue
		}
		if strings.Contains(e.T.s, "(forall ") {
			collectHyps(e.T, nil, &hyps)
		}
		groundReads(e.T, reads)
	}
	// the negated goal: its ground reads, and universally quantified parts of the goal's
	// antecedents are hypotheses too ((=> A B) negated is A and not B)
	groundReads(g, reads)
	if g.op == "=>" && len(g.args) == 2 {
		collectHyps(g.args[0], nil, &hyps)
	}
	total := 0
	seen := map[string]bool{}
	for _, h := range hyps {
		v := h.q.qvars[0][0]
		body := h.q.args[0]
		pats := map[string]string{}
		indexPatterns(body, v, pats)
		cnt := 0
		var keys []string
		for key := range pats {
			keys = append(keys, key)
		}
		sortStrings(keys)
		for _, key := range keys {
			off := pats[key]
			arr := key[:strings.Index(key, "\x00")]
			var idxs []string
			for idx := range reads[arr] {
				idxs = append(idxs, idx)
			}
			sortStrings(idxs)
			for _, idx := range idxs {
				if cnt >= maxInstPerQuant || total >= maxInstTotal {
					break
				}
				inst := idx
				if off != "" {
					if idx == off {
						inst = "0"
					} else if strings.HasPrefix(idx, "(+ "+off+" ") && strings.HasSuffix(idx, ")") {
						inst = idx[len("(+ "+off+" ") : len(idx)-1]
					} else {
						inst = "(- " + idx + " " + off + ")"
					}
				}
				txt := replaceToken(body.s, v, inst)
				if strings.Contains(txt, "(exists ") {
					// an instance that asserts an existential (". . . is a piece of some old entry"):
					// name the witness, so that its element reads become ground terms too
					it := substTree(body, v, inst)
					var decls []string
					txt = skolemisePositive(it, true, &n, &decls, reads)
					extra = append(extra, decls...)
				}
				if h.guard != nil {
					txt = "(=> " + h.guard.s + " " + txt + ")"
				}
				if seen[txt] {
					continue
				}
				seen[txt] = true
				extra = append(extra, "(assert "+txt+")")
				cnt++
				total++
				// a universally quantified consequent of the instance (forall i. forall j. P, as in
				// "no two entries are equal") is instantiated once more, for the same index terms
				if strings.Contains(txt, "(forall ") {
					nt := substTree(body, v, inst)
					var inner []qhyp
					collectHyps(nt, nil, &inner)
					for _, ih := range inner {
						iv := ih.q.qvars[0][0]
						ibody := ih.q.args[0]
						ipats := map[string]string{}
						indexPatterns(ibody, iv, ipats)
						var ikeys []string
						for k := range ipats {
							ikeys = append(ikeys, k)
						}
						sortStrings(ikeys)
						icnt := 0
						for _, ik := range ikeys {
							ioff := ipats[ik]
							iarr := ik[:strings.Index(ik, "\x00")]
							var iidxs []string
							for idx2 := range reads[iarr] {
								iidxs = append(iidxs, idx2)
							}
							sortStrings(iidxs)
							for _, idx2 := range iidxs {
								if icnt >= 12 || total >= maxInstTotal {
									break
								}
								inst2 := idx2
								if ioff != "" {
									if idx2 == ioff {
										inst2 = "0"
									} else if strings.HasPrefix(idx2, "(+ "+ioff+" ") && strings.HasSuffix(idx2, ")") {
										inst2 = idx2[len("(+ "+ioff+" ") : len(idx2)-1]
									} else {
										inst2 = "(- " + idx2 + " " + ioff + ")"
									}
								}
								t2 := replaceToken(ibody.s, iv, inst2)
								if ih.guard != nil {
									t2 = "(=> " + ih.guard.s + " " + t2 + ")"
								}
								if h.guard != nil {
									t2 = "(=> " + h.guard.s + " " + t2 + ")"
								}
								if seen[t2] {
									continue
								}
								seen[t2] = true
								extra = append(extra, "(assert "+t2+")")
								icnt++
								total++
							}
						}
					}
				}
			}
		}
	}
	// existential subformulas (of the goal or of hypotheses): P(t) => (exists k. P(k)) is valid for
	// every ground t, and gives the solver the witnesses it will not find by itself
	var exs []*Term
	seenEx := map[string]bool{}
	var findEx func(t *Term)
	findEx = func(t *Term) {
		if t == nil || t.op == "forall" || !strings.Contains(t.s, "(exists ") {
			return
		}
		if t.op == "exists" {
			if len(t.qvars) == 1 && t.qvars[0][1] == SInt && len(t.args) == 1 && !seenEx[t.s] {
				seenEx[t.s] = true
				exs = append(exs, t)
			}
			return
		}
		for _, a := range t.args {
			findEx(a)
		}
	}
	findEx(g)
	for _, e := range entries {
		if e.Kind == 1 && e.T != nil {
			findEx(e.T)
		}
	}
	for _, ex := range exs {
		v := ex.qvars[0][0]
		body := ex.args[0]
		pats := map[string]string{}
		indexPatterns(body, v, pats)
		var keys []string
		for key := range pats {
			keys = append(keys, key)
		}
		sortStrings(keys)
		cnt := 0
		for _, key := range keys {
			off := pats[key]
			arr := key[:strings.Index(key, "\x00")]
			var idxs []string
			for idx := range reads[arr] {
				idxs = append(idxs, idx)
			}
			sortStrings(idxs)
			for _, idx := range idxs {
				if cnt >= maxInstPerQuant || total >= maxInstTotal {
					break
				}
				inst := idx
				if off != "" {
					if idx == off {
						inst = "0"
					} else if strings.HasPrefix(idx, "(+ "+off+" ") && strings.HasSuffix(idx, ")") {
						inst = idx[len("(+ "+off+" ") : len(idx)-1]
					} else {
						inst = "(- " + idx + " " + off + ")"
					}
				}
				txt := "(=> " + replaceToken(body.s, v, inst) + " " + ex.s + ")"
				if seen[txt] {
					continue
				}
				seen[txt] = true
				extra = append(extra, "(assert "+txt+")")
				cnt++
				total++
			}
		}
	}
	return extra, goalText
}

// skolemisePositive rewrites existential subformulas in positive position (under and / or / the
// consequent of =>) of an asserted formula to their body with a fresh constant for the bound
// variable; the ground element reads of the new body are added to reads. Equisatisfiable.
func skolemisePositive(t *Term, positive bool, n *int, decls *[]string, reads map[string]map[string]bool) string {
	if t == nil {
		return ""
	}
	if !positive || !strings.Contains(t.s, "(exists ") {
		return t.s
	}
	switch t.op {
	case "exists":
		if len(t.qvars) == 1 && len(t.args) == 1 {
			*n++
			sk := fmt.Sprintf("sk!%d!%s", *n, strings.ReplaceAll(t.qvars[0][0], "!", "_"))
			*decls = append(*decls, "(declare-const "+sk+" "+t.qvars[0][1]+")")
			body := substTree(t.args[0], t.qvars[0][0], sk)
			groundReads(body, reads)
			return skolemisePositive(body, true, n, decls, reads)
		}
		return t.s
	case "and", "or":
		var b strings.Builder
		b.WriteString("(" + t.op)
		for _, a := range t.args {
			b.WriteByte(' ')
			b.WriteString(skolemisePositive(a, true, n, decls, reads))
		}
		b.WriteByte(')')
		return b.String()
	case "=>":
		if len(t.args) == 2 {
			return "(=> " + t.args[0].s + " " + skolemisePositive(t.args[1], true, n, decls, reads) + ")"
		}
	}
	return t.s
}
