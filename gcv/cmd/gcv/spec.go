package main

// Contract expression evaluation: Go expression syntax -> symbolic values.

import (
	"fmt"
	"go/ast"
	"go/constant"
	"go/token"
	"go/types"
	"math/big"
	"os"
	"strconv"
	"strings"

	"golang.org/x/tools/go/ssa"
)

type SpecCtx struct {
	x    *Exec
	st   *State
	fr   *Frame           // for invariants/asserts inside a function body (source names)
	env  map[string]*Val  // parameters, results, lets, bound variables
	old  *HeapSnap        // heap used inside old(...)
	heap *HeapSnap        // if non-nil: evaluate reads in this heap (inside old)
	pkg  *types.Package
	con  *Contract
	cl   *Clause
	oldEnv map[string]*Val
	depth int
	allocMark *Term
	allocHi   *Term // at a call site of an allocating callee: one past what it may have allocated
	inOld     bool
	// calleeGhost is set while a callee's ensures are assumed at a call site: call counters,
	// last arguments and last results named there belong to the callee's own execution (they
	// count from its entry), so each is an unknown of this call, never the caller's record.
	calleeGhost map[string]*Term
}

func (c *SpecCtx) calleeGhostTerm(key string, srt string, nonneg bool) *Term {
	if t, ok := c.calleeGhost[key]; ok {
		return t
	}
	t := c.x.freshConst(c.st, "cg", srt)
	if nonneg {
		c.x.assume(c.st, app(SBool, ">=", t, IntLit(0)), "callee call counter")
	}
	c.calleeGhost[key] = t
	return t
}

func (c *SpecCtx) fail(format string, a ...interface{}) {
	loc := ""
	if c.cl != nil {
		loc = fmt.Sprintf("%s:%d: ", c.cl.File, c.cl.Line)
	}
	panic(specError{loc + fmt.Sprintf(format, a...)})
}

type specError struct{ msg string }

func (x *Exec) evalClause(st *State, fr *Frame, con *Contract, cl *Clause, old *HeapSnap) *Term {
	ctx := &SpecCtx{x: x, st: st, fr: fr, env: map[string]*Val{}, pkg: x.pkgOfContract(con), con: con, old: old}
	if old == nil {
		h0 := st.heap0
		ctx.old = &h0
	}
	return ctx.evalBool(cl)
}

func (x *Exec) evalClauseVal(st *State, fr *Frame, con *Contract, cl *Clause, old *HeapSnap) *Val {
	ctx := &SpecCtx{x: x, st: st, fr: fr, env: map[string]*Val{}, pkg: x.pkgOfContract(con), con: con, old: old, cl: cl}
	if old == nil {
		h0 := st.heap0
		ctx.old = &h0
	}
	return ctx.eval(cl.Expr)
}

func (c *SpecCtx) evalBool(cl *Clause) *Term {
	c.cl = cl
	v := c.eval(cl.Expr)
	if v.K != kScalar || v.T.sort != SBool {
		c.fail("clause is not boolean: %s", cl.Text)
	}
	return v.T
}

func (c *SpecCtx) bindResults(sig *types.Signature, res *Val) {
	r := sig.Results()
	switch r.Len() {
	case 0:
	case 1:
		c.env["result"] = res
		c.env["result0"] = res
		if n := r.At(0).Name(); n != "" && n != "_" {
			c.env[n] = res
		}
	default:
		c.env["result"] = res
		for i := 0; i < r.Len(); i++ {
			c.env[fmt.Sprintf("result%d", i)] = res.F[i]
			if n := r.At(i).Name(); n != "" && n != "_" {
				c.env[n] = res.F[i]
			}
		}
	}
}

func boolV(t *Term) *Val { return scalar(t, types.Typ[types.Bool]) }
func intV(t *Term) *Val  { return scalar(t, types.Typ[types.Int]) }

func (c *SpecCtx) lookupIdent(name string) *Val {
	switch name {
	case "true":
		return boolV(TTrue)
	case "false":
		return boolV(TFalse)
	case "nil":
		return &Val{K: kNil}
	}
	if v, ok := c.env[name]; ok {
		return v
	}
	if c.inOld && c.fr != nil {
		// inside old(): parameter names denote their values at function entry
		if v, ok := c.fr.entry[name]; ok {
			return v
		}
	}
	if c.fr != nil {
		if v, ok := c.fr.lets[name]; ok {
			return v
		}
		if v, ok := c.fr.names[name]; ok {
			return v
		}
		if p, ok := c.fr.names["&"+name]; ok && p.K == kPtr {
			return c.x.load(c.st, p.L, c.heap)
		}
		if v, ok := c.fr.entry[name]; ok {
			return v
		}
	}
	// package-level constant / variable
	if c.pkg != nil {
		if obj := c.pkg.Scope().Lookup(name); obj != nil {
			return c.objVal(obj)
		}
	}
	if obj := types.Universe.Lookup(name); obj != nil {
		if k, ok := obj.(*types.Const); ok {
			return c.constVal(k)
		}
	}
	// dot-imported names (e.g. the storage package dot-imports storage/types)
	if c.pkg != nil && ast.IsExported(name) {
		for _, imp := range c.pkg.Imports() {
			if !strings.HasPrefix(imp.Path(), strings.TrimSuffix(modPath, "/")) {
				continue
			}
			if obj := imp.Scope().Lookup(name); obj != nil {
				switch obj.(type) {
				case *types.Const, *types.Var:
					return c.objVal(obj)
				}
			}
		}
	}
	c.fail("unknown identifier %q", name)
	return nil
}

func (c *SpecCtx) constVal(k *types.Const) *Val {
	switch k.Val().Kind() {
	case constant.Int:
		bi, _ := new(big.Int).SetString(k.Val().ExactString(), 10)
		return scalar(IntLitBig(bi), k.Type())
	case constant.Bool:
		return boolV(BoolLit(constant.BoolVal(k.Val())))
	case constant.String:
		return scalar(StrLit(constant.StringVal(k.Val())), k.Type())
	}
	c.fail("unsupported constant %s", k.Name())
	return nil
}

func (c *SpecCtx) objVal(obj types.Object) *Val {
	switch o := obj.(type) {
	case *types.Const:
		return c.constVal(o)
	case *types.Var:
		l := &Loc{Base: IntLit(1), Root: "G|" + o.Pkg().Path() + "." + o.Name(), T: o.Type()}
		c.x.initGlobal(c.st, l)
		return c.x.load(c.st, l, c.heap)
	}
	c.fail("cannot use %s in a specification", obj.Name())
	return nil
}

func (c *SpecCtx) importedPkg(name string) *types.Package {
	if c.pkg != nil {
		for _, imp := range c.pkg.Imports() {
			if imp.Name() == name {
				return imp
			}
		}
	}
	// an extern's clauses are written in the contract file of the package under verification
	if cc := c.x.curCon; cc != nil && cc.Fn != nil && cc.Fn.Pkg != nil {
		for _, imp := range cc.Fn.Pkg.Pkg.Imports() {
			if imp.Name() == name {
				return imp
			}
		}
	}
	// also allow referring to any loaded package by its name
	for _, sp := range c.x.w.SSAPkgs {
		if sp.Pkg.Name() == name {
			return sp.Pkg
		}
	}
	return nil
}

// namedType resolves "*pkgname.Type" or "pkgname.Type" through the packages visible from the
// contract's package.
func (c *SpecCtx) namedType(name string) types.Type {
	ptr := strings.HasPrefix(name, "*")
	bare := strings.TrimPrefix(name, "*")
	if i := strings.LastIndex(bare, "."); i > 0 {
		pn, tn := bare[:i], bare[i+1:]
		if j := strings.LastIndex(pn, "/"); j >= 0 {
			pn = pn[j+1:]
		}
		if p := c.importedPkg(pn); p != nil {
			if obj, ok := p.Scope().Lookup(tn).(*types.TypeName); ok {
				var t types.Type = obj.Type()
				if ptr {
					t = types.NewPointer(t)
				}
				return t
			}
		}
	}
	return nil
}

func (c *SpecCtx) deref(v *Val) *Val {
	if v.K == kPtr {
		return c.x.load(c.st, v.L, c.heap)
	}
	return v
}

func (c *SpecCtx) fieldOf(v *Val, name string) *Val {
	switch v.K {
	case kPtr:
		stt, ok := v.L.T.Underlying().(*types.Struct)
		if !ok {
			c.fail("selector .%s on pointer to non-struct %s", name, v.L.T)
		}
		for i := 0; i < stt.NumFields(); i++ {
			f := stt.Field(i)
			if f.Name() == name {
				return c.x.load(c.st, v.L.field(f.Name(), f.Type()), c.heap)
			}
		}
		// promoted fields through embedded structs
		for i := 0; i < stt.NumFields(); i++ {
			f := stt.Field(i)
			if f.Embedded() {
				if _, isS := f.Type().Underlying().(*types.Struct); isS {
					sub := &Val{K: kPtr, L: v.L.field(f.Name(), f.Type())}
					if r := c.tryField(sub, name); r != nil {
						return r
					}
				}
			}
		}
	case kStruct:
		stt := v.Typ.Underlying().(*types.Struct)
		for i := 0; i < stt.NumFields(); i++ {
			if stt.Field(i).Name() == name {
				return v.F[i]
			}
		}
		for i := 0; i < stt.NumFields(); i++ {
			f := stt.Field(i)
			if f.Embedded() && v.F[i].K == kStruct {
				if r := c.tryField(v.F[i], name); r != nil {
					return r
				}
			}
		}
	}
	return nil
}

func (c *SpecCtx) tryField(v *Val, name string) (r *Val) {
	defer func() {
		if e := recover(); e != nil {
			if _, ok := e.(specError); ok {
				r = nil
				return
			}
			panic(e)
		}
	}()
	return c.fieldOf(v, name)
}

func (c *SpecCtx) eval(e ast.Expr) *Val {
	x := c.x
	switch e := e.(type) {
	case *ast.ParenExpr:
		return c.eval(e.X)
	case *ast.Ident:
		return c.lookupIdent(e.Name)
	case *ast.BasicLit:
		switch e.Kind {
		case token.INT:
			bi, ok := new(big.Int).SetString(e.Value, 0)
			if !ok {
				c.fail("bad integer literal %s", e.Value)
			}
			return intV(IntLitBig(bi))
		case token.STRING:
			s, err := strconv.Unquote(e.Value)
			if err != nil {
				c.fail("bad string literal")
			}
			return scalar(StrLit(s), types.Typ[types.String])
		case token.CHAR:
			s, _, _, err := strconv.UnquoteChar(e.Value[1:len(e.Value)-1], '\'')
			if err != nil {
				c.fail("bad char literal")
			}
			return intV(IntLit(int64(s)))
		}
	case *ast.UnaryExpr:
		v := c.eval(e.X)
		switch e.Op {
		case token.NOT:
			if v.K == kScalar && v.T != nil && v.T.sort == SInt {
				return boolV(Eq(v.T, IntLit(0))) // a recorded boolean read as an integer (see binary)
			}
			return boolV(Not(v.T))
		case token.SUB:
			return intV(Neg(v.T))
		case token.AND:
			c.fail("address-of not supported in specifications")
		}
	case *ast.StarExpr:
		v := c.eval(e.X)
		if v.K != kPtr {
			c.fail("dereference of non-pointer")
		}
		return x.load(c.st, v.L, c.heap)
	case *ast.BinaryExpr:
		return c.binary(e)
	case *ast.SelectorExpr:
		if id, ok := e.X.(*ast.Ident); ok {
			if _, isLocal := c.env[id.Name]; !isLocal && (c.fr == nil || (c.fr.names[id.Name] == nil && c.fr.names["&"+id.Name] == nil && c.fr.entry[id.Name] == nil && c.fr.lets[id.Name] == nil)) {
				if p := c.importedPkg(id.Name); p != nil {
					obj := p.Scope().Lookup(e.Sel.Name)
					if obj == nil {
						c.fail("%s.%s not found", id.Name, e.Sel.Name)
					}
					return c.objVal(obj)
				}
			}
		}
		v := c.eval(e.X)
		if r := c.fieldOf(v, e.Sel.Name); r != nil {
			return r
		}
		c.fail("no field %s in %s", e.Sel.Name, v)
	case *ast.IndexExpr:
		base := c.eval(e.X)
		idx := c.eval(e.Index)
		return c.indexVal(base, idx)
	case *ast.SliceExpr:
		base := c.deref(c.eval(e.X))
		if base.K != kSlice {
			if base.K == kScalar && base.T.sort == SStr {
				lo, hi := IntLit(0), StrLen(base.T)
				if e.Low != nil {
					lo = c.eval(e.Low).T
				}
				if e.High != nil {
					hi = c.eval(e.High).T
				}
				return scalar(StrSubstr(base.T, lo, Sub(hi, lo)), base.Typ)
			}
			c.fail("slice expression on non-slice")
		}
		lo, hi := IntLit(0), base.Len
		if e.Low != nil {
			lo = c.eval(e.Low).T
		}
		if e.High != nil {
			hi = c.eval(e.High).T
		}
		return &Val{K: kSlice, Arr: base.Arr, Off: Add(base.Off, lo), Len: Sub(hi, lo), Cap: Sub(base.Cap, lo), Typ: base.Typ}
	case *ast.CallExpr:
		return c.call(e)
	}
	c.fail("unsupported specification expression %T", e)
	return nil
}

func (c *SpecCtx) indexVal(base, idx *Val) *Val {
	x := c.x
	base = c.deref(base)
	switch base.K {
	case kSlice:
		et := base.Typ.Underlying().(*types.Slice).Elem()
		l := &Loc{Base: base.Arr, Root: x.elemRoot(et), Idx: Add(base.Off, idx.T), T: et}
		return x.load(c.st, l, c.heap)
	case kArray:
		if idx.T.lit != nil {
			return base.F[idx.T.lit.Int64()]
		}
	case kScalar:
		if base.T.sort == SStr {
			return intV(StrAtCode(base.T, idx.T))
		}
		if mt, ok := base.Typ.Underlying().(*types.Map); ok {
			return x.mapValue(c.st, c.heap, base.T, mt, mapKeyTerm(idx))
		}
		if strings.HasPrefix(base.T.sort, "(Array") {
			return scalar(Select(base.T, idx.T), nil)
		}
	}
	c.fail("cannot index %s", base)
	return nil
}

func (c *SpecCtx) binary(e *ast.BinaryExpr) *Val {
	x := c.x
	// a recorded boolean (lastarg / lastret of a bool) that stands for "no such call on this path"
	// or for a callee's ghost value is an untyped integer constant: read it as "non-zero"
	asBool := func(v *Val) *Val {
		if v != nil && v.K == kScalar && v.T != nil && v.T.sort == SInt {
			return boolV(Neq(v.T, IntLit(0)))
		}
		return v
	}
	switch e.Op {
	case token.LAND:
		a := asBool(c.eval(e.X))
		if a.T.isFalse() {
			return a
		}
		b := asBool(c.eval(e.Y))
		return boolV(And(a.T, b.T))
	case token.LOR:
		a := asBool(c.eval(e.X))
		if a.T.isTrue() {
			return a
		}
		b := asBool(c.eval(e.Y))
		return boolV(Or(a.T, b.T))
	}
	a, b := c.eval(e.X), c.eval(e.Y)
	// lastarg/lastret of a call that did not happen on this path is an arbitrary value of the
	// sort it is compared with
	retype := func(p, q *Val) *Val {
		if p.K == kScalar && q.K == kScalar && p.T != nil && q.T != nil && p.T.sort != q.T.sort &&
			(strings.HasPrefix(p.T.s, "noarg!") || strings.HasPrefix(p.T.s, "noret!")) {
			return scalar(x.freshConst(c.st, "noarg", q.T.sort), q.Typ)
		}
		return p
	}
	a, b = retype(a, b), retype(b, a)
	switch e.Op {
	case token.EQL:
		return boolV(x.valEq(c.st, a, b, nil))
	case token.NEQ:
		return boolV(Not(x.valEq(c.st, a, b, nil)))
	}
	if a.K != kScalar || b.K != kScalar {
		c.fail("operator %s on non-scalar operands", e.Op)
	}
	at, bt := a.T, b.T
	if at.sort == SStr {
		switch e.Op {
		case token.ADD:
			return scalar(StrConcat(at, bt), a.Typ)
		case token.LSS:
			return boolV(StrLtT(at, bt))
		case token.LEQ:
			return boolV(StrLeT(at, bt))
		case token.GTR:
			return boolV(StrLtT(bt, at))
		case token.GEQ:
			return boolV(StrLeT(bt, at))
		}
	}
	switch e.Op {
	case token.LSS:
		return boolV(Lt(at, bt))
	case token.LEQ:
		return boolV(Le(at, bt))
	case token.GTR:
		return boolV(Gt(at, bt))
	case token.GEQ:
		return boolV(Ge(at, bt))
	case token.ADD:
		return intV(Add(at, bt))
	case token.SUB:
		return intV(Sub(at, bt))
	case token.MUL:
		return intV(Mul(at, bt))
	case token.QUO:
		at, bt = x.signHint(c.st, at), x.signHint(c.st, bt)
		return intV(GoDiv(at, bt))
	case token.REM:
		at, bt = x.signHint(c.st, at), x.signHint(c.st, bt)
		return intV(GoRem(at, bt))
	case token.SHL:
		if bt.lit != nil {
			return intV(Mul(at, IntLitBig(pow2(uint(bt.lit.Int64())))))
		}
	case token.SHR:
		if bt.lit != nil {
			return intV(EDiv(at, IntLitBig(pow2(uint(bt.lit.Int64())))))
		}
	case token.AND:
		if bt.lit != nil && bt.lit.Sign() >= 0 {
			return intV(andConst(at, bt.lit))
		}
		if at.lit != nil && at.lit.Sign() >= 0 {
			return intV(andConst(bt, at.lit))
		}
	case token.OR:
		if bt.lit != nil && bt.lit.Sign() >= 0 {
			return intV(Sub(Add(at, bt), andConst(at, bt.lit)))
		}
	case token.XOR:
		if bt.lit != nil && bt.lit.Sign() >= 0 {
			return intV(Sub(Add(at, bt), Mul(IntLit(2), andConst(at, bt.lit))))
		}
	}
	c.fail("unsupported operator %s in specification", e.Op)
	return nil
}

var convNames = map[string]*types.Basic{
	"int": types.Typ[types.Int], "int8": types.Typ[types.Int8], "int16": types.Typ[types.Int16], "int32": types.Typ[types.Int32], "int64": types.Typ[types.Int64],
	"uint": types.Typ[types.Uint], "uint8": types.Typ[types.Uint8], "uint16": types.Typ[types.Uint16], "uint32": types.Typ[types.Uint32], "uint64": types.Typ[types.Uint64],
	"byte": types.Typ[types.Uint8], "uintptr": types.Typ[types.Uintptr],
}

func (c *SpecCtx) quant(e *ast.CallExpr, forall bool) *Val {
	if len(e.Args) != 4 {
		c.fail("forall/exists take (var, lo, hi, body)")
	}
	id, ok := e.Args[0].(*ast.Ident)
	if !ok {
		c.fail("first argument of a quantifier must be an identifier")
	}
	lo := c.eval(e.Args[1]).T
	hi := c.eval(e.Args[2]).T
	c.x.nfresh++
	vn := fmt.Sprintf("%s!q%d", id.Name, c.x.nfresh)
	v := Var(vn, SInt)
	saved, had := c.env[id.Name]
	c.env[id.Name] = intV(v)
	c.x.inQuant++
	body := c.eval(e.Args[3]).T
	c.x.inQuant--
	if had {
		c.env[id.Name] = saved
	} else {
		delete(c.env, id.Name)
	}
	rng := app(SBool, "and", app(SBool, "<=", lo, v), app(SBool, "<", v, hi))
	// explicit triggers: every array read whose index mentions the bound variable
	cands := map[string]*Term{}
	if os.Getenv("GCV_PATTERNS") != "" {
		// off by default: measured on the location-list contracts, explicit triggers made z3 miss
		// instantiations that its own trigger inference finds
		collectSelects(body, vn, cands)
	}
	var pats [][]*Term
	var keys []string
	for k := range cands {
		keys = append(keys, k)
	}
	sortStrings(keys)
	for _, k := range keys {
		if len(pats) < 6 {
			pats = append(pats, []*Term{cands[k]})
		}
	}
	if forall {
		return boolV(Forall([][2]string{{vn, SInt}}, app(SBool, "=>", rng, body), pats...))
	}
	return boolV(ExistsP([][2]string{{vn, SInt}}, app(SBool, "and", rng, body), pats...))
}

// collectSelects gathers the outermost array reads in t whose index mentions variable vn and
// that mention no other bound variable of an inner quantifier.
func collectSelects(t *Term, vn string, out map[string]*Term) {
	if t == nil || !strings.Contains(t.s, vn) {
		return
	}
	if t.op == "select" && len(t.args) == 2 && strings.Contains(t.args[1].s, vn) {
		if !mentionsOtherBound(t.s, vn) && !strings.Contains(t.s, "(ite ") && !strings.Contains(t.s, "(div ") && !strings.Contains(t.s, "(mod ") {
			out[t.s] = t
		}
		return
	}
	for _, a := range t.args {
		collectSelects(a, vn, out)
	}
}

func mentionsOtherBound(s, vn string) bool {
	rest := strings.ReplaceAll(s, vn, "")
	return strings.Contains(rest, "!q")
}

func sortStrings(a []string) {
	for i := 1; i < len(a); i++ {
		for j := i; j > 0 && a[j] < a[j-1]; j-- {
			a[j], a[j-1] = a[j-1], a[j]
		}
	}
}

func (c *SpecCtx) call(e *ast.CallExpr) *Val {
	x := c.x
	// builtin spec functions
	if id, ok := e.Fun.(*ast.Ident); ok {
		switch id.Name {
		case "old":
			if c.old == nil {
				c.fail("old() not available here")
			}
			sub := *c
			sub.heap = c.old
			sub.inOld = true
			if c.oldEnv != nil {
				sub.env = c.oldEnv
			}
			return sub.eval(e.Args[0])
		case "forall":
			return c.quant(e, true)
		case "exists":
			return c.quant(e, false)
		case "implies":
			// (a recorded boolean may arrive as an integer constant: non-zero = true, see binary)
			intAsBool := func(t *Term) *Term {
				if t != nil && t.sort == SInt {
					return Neq(t, IntLit(0))
				}
				return t
			}
			a := c.eval(e.Args[0])
			at := intAsBool(a.T)
			if at.isFalse() {
				return boolV(TTrue)
			}
			// the consequent may name locals that do not exist on a path on which the antecedent
			// is false (an early return): such a path satisfies the implication
			var cons *Term
			func() {
				defer func() {
					if r := recover(); r != nil {
						if se, isSpec := r.(specError); isSpec && strings.Contains(se.msg, "unknown identifier") {
							// the implication then holds exactly if the antecedent is false
							cons = nil
							return
						}
						panic(r)
					}
				}()
				cons = intAsBool(c.eval(e.Args[1]).T)
			}()
			if cons == nil {
				return boolV(Not(at))
			}
			return boolV(Implies(at, cons))
		case "iff":
			return boolV(Eq(c.eval(e.Args[0]).T, c.eval(e.Args[1]).T))
		case "ite":
			cond := c.eval(e.Args[0]).T
			a, b := c.eval(e.Args[1]), c.eval(e.Args[2])
			if a.K == kScalar && b.K == kScalar {
				return scalar(Ite(cond, a.T, b.T), a.Typ)
			}
			c.fail("ite on non-scalars")
		case "len":
			v := c.deref(c.eval(e.Args[0]))
			switch v.K {
			case kSlice:
				return intV(v.Len)
			case kNil:
				return intV(IntLit(0))
			case kArray:
				return intV(IntLit(int64(len(v.F))))
			case kScalar:
				if v.T.sort == SStr {
					return intV(StrLen(v.T))
				}
				if v.Typ == nil {
					c.fail("len of a value of unknown type (lastarg of a call that does not happen on this path? guard the clause with implies(ncalls(..) == 1, ..))")
				}
				if mt, ok := v.Typ.Underlying().(*types.Map); ok {
					root := "M|" + mapKeySort(mt) + "|" + typeKey(mt)
					var arr *Term
					if c.heap != nil {
						arr = x.heapIn(c.st, *c.heap, root+"|#len", SInt)
					} else {
						arr = x.heapGet(c.st, root+"|#len", SInt)
					}
					return intV(Select(arr, v.T))
				}
			}
			c.fail("len of %s", v)
		case "cap":
			v := c.deref(c.eval(e.Args[0]))
			if v.K == kSlice {
				return intV(v.Cap)
			}
		case "has":
			// has(m, k): key present in map
			m := c.deref(c.eval(e.Args[0]))
			k := c.eval(e.Args[1])
			mt := m.Typ.Underlying().(*types.Map)
			root := "M|" + mapKeySort(mt) + "|" + typeKey(mt)
			var arr *Term
			if c.heap != nil {
				arr = x.heapIn(c.st, *c.heap, root+"|#present", SBool)
			} else {
				arr = x.heapGet(c.st, root+"|#present", SBool)
			}
			return boolV(And(Neq(m.T, IntLit(0)), Select(Select(arr, m.T), mapKeyTerm(k))))
		case "min":
			a, b := c.eval(e.Args[0]).T, c.eval(e.Args[1]).T
			return intV(Ite(Le(a, b), a, b))
		case "max":
			a, b := c.eval(e.Args[0]).T, c.eval(e.Args[1]).T
			return intV(Ite(Ge(a, b), a, b))
		case "ncalls":
			name := canonCall(c.strArg(e.Args[0]))
			if c.calleeGhost != nil {
				return intV(c.calleeGhostTerm("ncalls:"+name, SInt, true))
			}
			if t, ok := c.st.ghost["ncalls:"+name]; ok {
				return intV(t)
			}
			return intV(IntLit(0))
		case "called":
			name := canonCall(c.strArg(e.Args[0]))
			if c.calleeGhost != nil {
				return boolV(c.calleeGhostTerm("called:"+name, SBool, false))
			}
			_, ok := c.st.ghost["ncalls:"+name]
			return boolV(BoolLit(ok))
		case "lastarg":
			name := canonCall(c.strArg(e.Args[0]))
			i := c.eval(e.Args[1]).T.lit.Int64()
			if c.calleeGhost != nil {
				return scalar(c.calleeGhostTerm(fmt.Sprintf("lastarg:%s:%d", name, i), SInt, false), nil)
			}
			if t, ok := c.st.ghost[fmt.Sprintf("lastarg:%s:%d", name, i)]; ok {
				return scalar(t, nil) // per-path record (scalar arguments)
			}
			if _, happened := c.st.ghost["ncalls:"+name]; happened {
				// a non-scalar argument of a call made on this path
				if v, ok := x.lastArgs[fmt.Sprintf("%s:%d", name, i)]; ok {
					return v
				}
			}
			// no such call on this path: any value (specifications guard with ncalls)
			return scalar(x.freshConst(c.st, "noarg", SInt), nil)
		case "lastret":
			// lastret("callee", i): scalar result i of the last call to callee on this path
			name := canonCall(c.strArg(e.Args[0]))
			i := c.eval(e.Args[1]).T.lit.Int64()
			if c.calleeGhost != nil {
				return scalar(c.calleeGhostTerm(fmt.Sprintf("lastret:%s:%d", name, i), SInt, false), nil)
			}
			if t, ok := c.st.ghost[fmt.Sprintf("lastret:%s:%d", name, i)]; ok {
				return scalar(t, nil)
			}
			return scalar(x.freshConst(c.st, "noret", SInt), nil)
		case "typeis":
			// typeis(ifaceValue, "pkg.Type")
			v := c.eval(e.Args[0])
			name := c.strArg(e.Args[1])
			for k, id := range x.typeIDs {
				if k == name {
					return boolV(Eq(v.Tag, IntLit(id)))
				}
			}
			if t := c.namedType(name); t != nil {
				return boolV(Eq(v.Tag, IntLit(x.typeID(t))))
			}
			c.fail("unknown type %q in typeis", name)
		case "unbox":
			// unbox(ifaceValue, "*pkg.Type"): the value held by the interface, read as that type
			// (meaningful where typeis(ifaceValue, "*pkg.Type") holds)
			v := c.eval(e.Args[0])
			name := c.strArg(e.Args[1])
			if v.K != kIface {
				c.fail("unbox() of a value that is not an interface")
			}
			t := c.namedType(name)
			if t == nil {
				c.fail("unknown type %q in unbox", name)
			}
			if pt, ok := t.Underlying().(*types.Pointer); ok {
				return x.ptrVal(v.Ptr, pt.Elem(), t)
			}
			return x.load(c.st, &Loc{Base: v.Ptr, Root: "B|" + typeKey(t), T: t}, c.heap)
		case "fileByte", "fileSize":
			// ghost file contents (see filemodels.go); the file is given by identity: ref(f) or f
			fv := c.eval(e.Args[0])
			var ref *Term
			if fv.K == kScalar && fv.T.sort == SInt {
				ref = fv.T
			} else {
				ref = refOf(fv)
			}
			if ref == nil {
				c.fail("%s: first argument must identify a file", id.Name)
			}
			if id.Name == "fileSize" {
				return intV(x.fileSize(c.st, c.heap, ref))
			}
			return intV(Select(x.fileContent(c.st, c.heap, ref), c.eval(e.Args[1]).T))
		case "str":
			// str(b): the string made of the bytes of slice b (what string(b) computes)
			v := c.deref(c.eval(e.Args[0]))
			if v.K == kScalar && v.T.sort == SStr {
				return v
			}
			if v.K != kSlice {
				c.fail("str() of a value that is neither a byte slice nor a string")
			}
			return x.bytesToStringIn(c.st, v, v.Typ.Underlying().(*types.Slice), types.Typ[types.String], c.heap)
		case "now":
			// now(): the ghost instant (ns since the epoch) that time.Now() returns on this path
			return intV(x.nowTerm(c.st))
		case "timens":
			v := c.eval(e.Args[0])
			if v.K != kStruct && v.K != kPtr {
				c.fail("timens() of a value that is not a time.Time")
			}
			return intV(x.tns(c.st, v))
		case "itoa":
			return scalar(itoaTerm(c.eval(e.Args[0]).T), types.Typ[types.String])
		case "atoi":
			return intV(strToInt(c.eval(e.Args[0]).T))
		case "strprefix":
			return boolV(StrPrefixOf(c.eval(e.Args[0]).T, c.eval(e.Args[1]).T))
		case "strsuffix":
			return boolV(StrSuffixOf(c.eval(e.Args[0]).T, c.eval(e.Args[1]).T))
		case "asptr":
			// asptr(id, "*pkg.Type"): the object with identity id (e.g. a recorded lastarg / lastret)
			// read as a pointer of that type
			v := c.eval(e.Args[0])
			name := c.strArg(e.Args[1])
			t := c.namedType(name)
			if t == nil {
				c.fail("unknown type %q in asptr", name)
			}
			pt, ok := t.Underlying().(*types.Pointer)
			if !ok || v.K != kScalar || v.T.sort != SInt {
				c.fail("asptr needs an object identity and a pointer type")
			}
			return x.ptrVal(v.T, pt.Elem(), t)
		case "sinkarg":
			// sinkarg(i): argument i of the call a sink guard is being checked for (0 = receiver
			// for methods)
			i := int(c.eval(e.Args[0]).T.lit.Int64())
			if x.sinkArgs == nil || i >= len(x.sinkArgs) || x.sinkArgs[i] == nil {
				c.fail("sinkarg(%d) is only available in sink clauses", i)
			}
			return x.sinkArgs[i]
		case "strlastindex":
			// strlastindex(s, sep): what strings.LastIndex(s, sep) returns (same function symbol
			// and defining axioms as the program model)
			return intV(x.strLastIndex(c.st, c.eval(e.Args[0]).T, c.eval(e.Args[1]).T))
		case "strcontains":
			return boolV(StrContains(c.eval(e.Args[0]).T, c.eval(e.Args[1]).T))
		case "wrap":
			// wrap(expr, "uint32")
			v := c.eval(e.Args[0])
			return intV(wrapTo(v.T, convNames[c.strArg(e.Args[1])]))
		case "contents":
			// contents(s): the backing array of a byte/int slice as an SMT array (for ufun arguments)
			v := c.deref(c.eval(e.Args[0]))
			if v.K != kSlice {
				c.fail("contents() of non-slice")
			}
			et := v.Typ.Underlying().(*types.Slice).Elem()
			ls := flatten(et)
			if len(ls) != 1 {
				c.fail("contents() needs a slice of scalars")
			}
			key := x.elemRoot(et) + "|"
			var arr *Term
			if c.heap != nil {
				arr = x.heapIn(c.st, *c.heap, key, ls[0].Sort)
			} else {
				arr = x.heapGet(c.st, key, ls[0].Sort)
			}
			return scalar(Select(arr, v.Arr), nil)
		case "offset":
			v := c.deref(c.eval(e.Args[0]))
			if v.K != kSlice {
				c.fail("offset() of non-slice")
			}
			return intV(v.Off)
		case "ref":
			// ref(x): the object identity behind a pointer, interface, map or slice value
			v := c.eval(e.Args[0])
			switch v.K {
			case kPtr:
				return intV(v.L.Base)
			case kIface:
				return intV(v.Ptr)
			case kSlice:
				return intV(v.Arr)
			case kScalar:
				return intV(v.T)
			case kNil:
				return intV(IntLit(0))
			}
			c.fail("ref() of a value without identity")
		case "arrayof":
			v := c.deref(c.eval(e.Args[0]))
			if v.K != kSlice {
				c.fail("arrayof() of non-slice")
			}
			return intV(v.Arr)
		case "fresh":
			v := c.eval(e.Args[0])
			within := func(t *Term) *Val {
				if c.allocMark != nil && c.allocHi != nil {
					return boolV(And(Ge(t, c.allocMark), Lt(t, c.allocHi)))
				}
				return boolV(Ge(t, x.callAllocBase(c)))
			}
			switch v.K {
			case kPtr:
				return within(v.L.Base)
			case kSlice:
				return within(v.Arr)
			}
			c.fail("fresh() of non-reference")
		}
		if b, ok := convNames[id.Name]; ok && len(e.Args) == 1 {
			v := c.eval(e.Args[0])
			if v.K == kScalar && v.T.sort == SInt {
				return scalar(wrapTo(v.T, b), b)
			}
			c.fail("conversion %s of non-integer", id.Name)
		}
		if id.Name == "string" && len(e.Args) == 1 {
			return c.eval(e.Args[0])
		}
		if sf, ok := x.w.Specs[id.Name]; ok {
			return c.specCall(sf, e.Args)
		}
		if uf, ok := x.w.UFuns[id.Name]; ok {
			if len(e.Args) != len(uf.Args) {
				c.fail("ufun %s expects %d arguments", uf.Name, len(uf.Args))
			}
			x.declareFun(c.st, uf.Name, uf.Args, uf.Res)
			var ts []*Term
			for i, a := range e.Args {
				v := c.eval(a)
				if v.K != kScalar || v.T.sort != uf.Args[i] {
					c.fail("ufun %s: argument %d has the wrong sort", uf.Name, i)
				}
				ts = append(ts, v.T)
			}
			var typ types.Type
			if uf.Res == SInt {
				typ = types.Typ[types.Int]
			} else if uf.Res == SBool {
				typ = types.Typ[types.Bool]
			} else if uf.Res == SStr {
				typ = types.Typ[types.String]
			}
			return scalar(App(uf.Res, uf.Name, ts...), typ)
		}
		// named type conversion (e.g. Size(x), Cookie(x))
		if c.pkg != nil {
			if obj := c.pkg.Scope().Lookup(id.Name); obj != nil {
				if tn, ok := obj.(*types.TypeName); ok && len(e.Args) == 1 {
					v := c.eval(e.Args[0])
					if b, isInt := isIntType(tn.Type()); isInt && v.K == kScalar {
						return scalar(wrapTo(v.T, b), tn.Type())
					}
					nv := *v
					nv.Typ = tn.Type()
					return &nv
				}
				if fo, ok := obj.(*types.Func); ok {
					return c.pureCall(x.w.Prog.FuncValue(fo), nil, e.Args)
				}
			}
		}
		c.fail("unknown function %q in specification", id.Name)
	}
	if sel, ok := e.Fun.(*ast.SelectorExpr); ok {
		// pkg.Func(...) or value.Method(...)
		if id, ok := sel.X.(*ast.Ident); ok {
			if _, isLocal := c.env[id.Name]; !isLocal && (c.fr == nil || (c.fr.names[id.Name] == nil && c.fr.entry[id.Name] == nil && c.fr.names["&"+id.Name] == nil)) {
				if p := c.importedPkg(id.Name); p != nil {
					obj := p.Scope().Lookup(sel.Sel.Name)
					switch o := obj.(type) {
					case *types.Func:
						return c.pureCall(x.w.Prog.FuncValue(o), nil, e.Args)
					case *types.TypeName:
						v := c.eval(e.Args[0])
						if b, isInt := isIntType(o.Type()); isInt && v.K == kScalar {
							return scalar(wrapTo(v.T, b), o.Type())
						}
						nv := *v
						nv.Typ = o.Type()
						return &nv
					}
					c.fail("%s.%s is not callable", id.Name, sel.Sel.Name)
				}
			}
		}
		recv := c.eval(sel.X)
		var rt types.Type = recv.Typ
		if recv.K == kPtr && rt == nil {
			rt = types.NewPointer(recv.L.T)
		}
		if rt == nil {
			c.fail("method call on value of unknown type")
		}
		ms := x.w.Prog.MethodSets.MethodSet(rt)
		var msel *types.Selection
		for i := 0; i < ms.Len(); i++ {
			if ms.At(i).Obj().Name() == sel.Sel.Name {
				msel = ms.At(i)
			}
		}
		if msel == nil {
			if _, isPtr := rt.(*types.Pointer); !isPtr {
				// try pointer receiver methods on addressable value? not available
			}
			c.fail("no method %s on %s", sel.Sel.Name, rt)
		}
		f := x.w.Prog.MethodValue(msel)
		return c.pureCall(f, recv, e.Args)
	}
	c.fail("unsupported call in specification")
	return nil
}

func (x *Exec) callAllocBase(c *SpecCtx) *Term {
	if c.allocMark != nil {
		return c.allocMark
	}
	return x.allocBase0
}

func (c *SpecCtx) strArg(e ast.Expr) string {
	if bl, ok := e.(*ast.BasicLit); ok && bl.Kind == token.STRING {
		s, _ := strconv.Unquote(bl.Value)
		return s
	}
	c.fail("expected a string literal")
	return ""
}

func (c *SpecCtx) specCall(sf *SpecFn, args []ast.Expr) *Val {
	if len(args) != len(sf.Params) {
		c.fail("spec %s expects %d arguments", sf.Name, len(sf.Params))
	}
	if c.depth > 40 {
		c.fail("spec recursion too deep in %s", sf.Name)
	}
	env := map[string]*Val{}
	for i, a := range args {
		v := c.eval(a)
		if v.K == kScalar && v.T.sort == SInt && len(v.T.s) > 48 {
			// name large arguments: spec functions are expanded like macros
			nv := *v
			nv.T = c.x.bind(c.st, c.x.signHint(c.st, v.T), "sa")
			v = &nv
		}
		env[sf.Params[i]] = v
	}
	sub := *c
	sub.env = env
	sub.fr = nil
	sub.depth = c.depth + 1
	return sub.eval(sf.Body)
}

// pureCall uses the callee's contract as its definition: fresh result constrained by ensures.
func (c *SpecCtx) pureCall(f *ssa.Function, recv *Val, argExprs []ast.Expr) *Val {
	x := c.x
	if f == nil {
		c.fail("function not found")
	}
	con := x.contractFor(f)
	if con == nil {
		c.fail("specification calls %s which has no contract", f)
	}
	if len(con.of("modifies", -1)) > 0 {
		c.fail("specification calls %s which is not pure (has modifies)", f)
	}
	var args []*Val
	if recv != nil {
		// value receivers get the value, pointer receivers the pointer
		if f.Signature.Recv() != nil {
			if _, wantPtr := f.Signature.Recv().Type().(*types.Pointer); !wantPtr && recv.K == kPtr {
				recv = c.deref(recv)
			}
		}
		args = append(args, recv)
	}
	for _, a := range argExprs {
		args = append(args, c.eval(a))
	}
	names := paramNames(f.Signature, f, con)
	env := map[string]*Val{}
	for i, n := range names {
		if i < len(args) {
			env[n] = args[i]
		}
	}
	sub := &SpecCtx{x: x, st: c.st, env: env, pkg: x.pkgOfContract(con), con: con, heap: c.heap, old: c.old, depth: c.depth + 1}
	if sub.depth > 20 {
		c.fail("pure call recursion too deep")
	}
	res := x.freshResult(c.st, "pure_"+sanitize(f.Name()), f.Signature.Results())
	sub.bindResults(f.Signature, res)
	var pre []*Term
	for _, cl := range con.of("requires", -1) {
		pre = append(pre, sub.evalBool(cl))
	}
	var post []*Term
	for _, cl := range con.of("ensures", -1) {
		post = append(post, sub.evalBool(cl))
	}
	x.assume(c.st, Implies(And(pre...), And(post...)), "pure-def "+con.Func)
	return res
}

// ---------- modifies targets ----------

func (c *SpecCtx) modTargets(cl *Clause) []modTarget {
	c.cl = cl
	var out []modTarget
	for _, part := range splitTopLevel(cl.Text) {
		if part == "*" {
			out = append(out, modTarget{all: true})
			continue
		}
		e := parseExprOrDie(part, cl)
		out = append(out, c.modTarget(e)...)
	}
	return out
}

func (c *SpecCtx) locOf(e ast.Expr) *Loc {
	switch e := e.(type) {
	case *ast.ParenExpr:
		return c.locOf(e.X)
	case *ast.SelectorExpr:
		base := c.eval(e.X)
		var bl *Loc
		if base.K == kPtr {
			bl = base.L
		} else {
			bl = c.locOf(e.X)
		}
		stt, ok := bl.T.Underlying().(*types.Struct)
		if !ok {
			c.fail("modifies: %s is not a struct", bl.T)
		}
		for i := 0; i < stt.NumFields(); i++ {
			f := stt.Field(i)
			if f.Name() == e.Sel.Name {
				return bl.field(f.Name(), f.Type())
			}
		}
		for i := 0; i < stt.NumFields(); i++ {
			f := stt.Field(i)
			if f.Embedded() {
				if st2, ok := f.Type().Underlying().(*types.Struct); ok {
					for j := 0; j < st2.NumFields(); j++ {
						if st2.Field(j).Name() == e.Sel.Name {
							return bl.field(f.Name(), f.Type()).field(st2.Field(j).Name(), st2.Field(j).Type())
						}
					}
				}
			}
		}
		c.fail("modifies: no field %s", e.Sel.Name)
	case *ast.StarExpr:
		v := c.eval(e.X)
		if v.K == kPtr {
			return v.L
		}
	case *ast.Ident:
		if c.fr != nil {
			if p, ok := c.fr.names["&"+e.Name]; ok && p.K == kPtr {
				return p.L
			}
		}
		if c.pkg != nil {
			if obj, ok := c.pkg.Scope().Lookup(e.Name).(*types.Var); ok {
				return &Loc{Base: IntLit(1), Root: "G|" + obj.Pkg().Path() + "." + obj.Name(), T: obj.Type()}
			}
		}
	}
	c.fail("modifies: cannot take location of expression")
	return nil
}

func (c *SpecCtx) modTarget(e ast.Expr) []modTarget {
	x := c.x
	switch e := e.(type) {
	case *ast.SliceExpr:
		s := c.deref(c.eval(e.X))
		if s.K != kSlice {
			c.fail("modifies: slice range on non-slice")
		}
		lo, hi := IntLit(0), s.Len
		if e.Low != nil {
			lo = c.eval(e.Low).T
		}
		if e.High != nil {
			hi = c.eval(e.High).T
		}
		et := s.Typ.Underlying().(*types.Slice).Elem()
		var out []modTarget
		for _, lf := range flatten(et) {
			out = append(out, modTarget{key: x.elemRoot(et) + "|" + lf.Path, sort: lf.Sort, base: s.Arr, lo: Add(s.Off, lo), hi: Add(s.Off, hi)})
		}
		return out
	case *ast.IndexExpr:
		// m[*]-style not supported; s[i] single element
		s := c.deref(c.eval(e.X))
		if s.K == kSlice {
			i := c.eval(e.Index).T
			et := s.Typ.Underlying().(*types.Slice).Elem()
			var out []modTarget
			for _, lf := range flatten(et) {
				out = append(out, modTarget{key: x.elemRoot(et) + "|" + lf.Path, sort: lf.Sort, base: s.Arr, lo: Add(s.Off, i), hi: Add(s.Off, Add(i, IntLit(1)))})
			}
			return out
		}
		if s.K == kScalar {
			if mt, ok := s.Typ.Underlying().(*types.Map); ok {
				var out []modTarget
				for _, k := range x.mapKeys(mt) {
					out = append(out, modTarget{key: k.key, sort: k.sort, base: s.T})
				}
				return out
			}
		}
		c.fail("modifies: unsupported index target")
	case *ast.CallExpr:
		// elems(s): every element of the backing array of s
		if id, ok := e.Fun.(*ast.Ident); ok && id.Name == "elems" {
			s := c.deref(c.eval(e.Args[0]))
			if s.K != kSlice {
				c.fail("modifies: elems() of non-slice")
			}
			et := s.Typ.Underlying().(*types.Slice).Elem()
			var out []modTarget
			for _, lf := range flatten(et) {
				out = append(out, modTarget{key: x.elemRoot(et) + "|" + lf.Path, sort: lf.Sort, base: s.Arr})
			}
			return out
		}
		// allof(x.f): field f of every object of x's struct type (x only names the type)
		if id, ok := e.Fun.(*ast.Ident); ok && id.Name == "allof" {
			l := c.locOf(e.Args[0])
			var out []modTarget
			for _, lf := range flatten(l.T) {
				out = append(out, modTarget{whole: true, key: l.Root + "|" + l.Path + lf.Path, sort: lf.Sort})
			}
			return out
		}
		// mapof(m): whole map
		if id, ok := e.Fun.(*ast.Ident); ok && id.Name == "mapof" {
			s := c.deref(c.eval(e.Args[0]))
			mt := s.Typ.Underlying().(*types.Map)
			var out []modTarget
			for _, k := range x.mapKeys(mt) {
				out = append(out, modTarget{key: k.key, sort: k.sort, base: s.T})
			}
			return out
		}
	}
	l := c.locOf(e)
	var out []modTarget
	for _, lf := range flatten(l.T) {
		m := modTarget{key: l.Root + "|" + l.Path + lf.Path, sort: lf.Sort, base: l.Base}
		if l.Idx != nil {
			m.lo, m.hi = l.Idx, Add(l.Idx, IntLit(1))
		}
		out = append(out, m)
	}
	return out
}
