package main

// SSA instruction semantics and control flow (DFS, continuation-passing).

import (
	"fmt"
	"go/constant"
	"go/token"
	"go/types"
	"math/big"
	"strings"

	"golang.org/x/tools/go/ssa"
)

type retFn func(st *State, results *Val)

type pathEnd struct{ why string }

// ---------- loop structure ----------

type loopInfo struct {
	headers map[int]int          // block index -> loop ordinal
	body    map[int]map[int]bool // header -> set of block indices in the natural loop
}

var loopCache = map[*ssa.Function]*loopInfo{}

func loopsOf(fn *ssa.Function) *loopInfo {
	if li, ok := loopCache[fn]; ok {
		return li
	}
	li := &loopInfo{headers: map[int]int{}, body: map[int]map[int]bool{}}
	for _, b := range fn.Blocks {
		for _, s := range b.Succs {
			if s.Dominates(b) {
				h := s.Index
				if li.body[h] == nil {
					li.body[h] = map[int]bool{h: true}
				}
				// natural loop of back edge b->s
				stack := []*ssa.BasicBlock{b}
				for len(stack) > 0 {
					n := stack[len(stack)-1]
					stack = stack[:len(stack)-1]
					if li.body[h][n.Index] {
						continue
					}
					li.body[h][n.Index] = true
					for _, p := range n.Preds {
						stack = append(stack, p)
					}
				}
			}
		}
	}
	ord := 0
	for _, b := range fn.Blocks {
		if li.body[b.Index] != nil {
			li.headers[b.Index] = ord
			ord++
		}
	}
	loopCache[fn] = li
	return li
}

// ---------- values of operands ----------

func (x *Exec) val(st *State, fr *Frame, v ssa.Value) *Val {
	switch c := v.(type) {
	case *ssa.Const:
		return x.constVal(c)
	case *ssa.Global:
		return &Val{K: kPtr, L: &Loc{Base: IntLit(1), Root: "G|" + c.Pkg.Pkg.Path() + "." + c.Name(), T: c.Type().(*types.Pointer).Elem()}, Typ: c.Type()}
	case *ssa.Function:
		return &Val{K: kFunc, Fn: c, Typ: c.Type()}
	case *ssa.Builtin:
		return &Val{K: kFunc, Typ: c.Type(), T: IntLit(-1)}
	}
	if r, ok := fr.regs[v]; ok {
		return r
	}
	panic(fmt.Sprintf("no value for %s (%T) in %s", v.Name(), v, fr.fn))
}

func (x *Exec) constVal(c *ssa.Const) *Val {
	t := c.Type()
	if c.Value == nil {
		// zero value / nil
		return x.zeroVal(t)
	}
	switch c.Value.Kind() {
	case constant.Bool:
		return scalar(BoolLit(constant.BoolVal(c.Value)), t)
	case constant.String:
		return scalar(StrLit(constant.StringVal(c.Value)), t)
	case constant.Int:
		bi, ok := new(big.Int).SetString(c.Value.ExactString(), 10)
		if !ok {
			panic("bad int const " + c.Value.ExactString())
		}
		if b, ok := t.Underlying().(*types.Basic); ok && b.Info()&types.IsFloat != 0 {
			return scalar(&Term{s: smtReal(bi.String()), sort: "Real"}, t)
		}
		return scalar(IntLitBig(bi), t)
	case constant.Float:
		f, _ := constant.Float64Val(c.Value)
		if b, ok := t.Underlying().(*types.Basic); ok && b.Info()&types.IsInteger != 0 {
			return scalar(IntLit(int64(f)), t)
		}
		return scalar(&Term{s: smtReal(fmt.Sprintf("%f", f)), sort: "Real"}, t)
	}
	panic(unsupported{"constant kind " + c.Value.Kind().String()})
}

func smtReal(s string) string {
	neg := strings.HasPrefix(s, "-")
	if neg {
		s = s[1:]
	}
	if !strings.Contains(s, ".") {
		s += ".0"
	}
	if neg {
		return "(- " + s + ")"
	}
	return s
}

func (x *Exec) site(pos token.Pos) string {
	if !pos.IsValid() || x.w.Fset == nil {
		return "?"
	}
	p := x.w.Fset.Position(pos)
	f := p.Filename
	if i := strings.Index(f, "/weed/"); i >= 0 {
		f = f[i+1:]
	}
	return fmt.Sprintf("%s:%d", f, p.Line)
}

// ---------- running ----------

// runFunc executes fn with args; ret is invoked once per completed path.
func (x *Exec) runFunc(st *State, fn *ssa.Function, args []*Val, bind []*Val, depth int, ret retFn) {
	if fn.Blocks == nil {
		panic(unsupported{"no body: " + fn.String()})
	}
	fr := &Frame{fn: fn, regs: map[ssa.Value]*Val{}, names: map[string]*Val{}, depth: depth, iter: map[int]int{}, lets: map[string]*Val{}, inLoop: map[int]bool{}, auto: map[int]bool{}, entry: map[string]*Val{}}
	if depth == 0 {
		fr.con = x.curCon
	}
	for i, p := range fn.Params {
		fr.regs[p] = args[i]
		fr.names[p.Name()] = args[i]
		fr.entry[p.Name()] = args[i]
	}
	for i, fv := range fn.FreeVars {
		fr.regs[fv] = bind[i]
	}
	st.frames = append(st.frames, fr)
	x.enterBlock(st, fr, nil, fn.Blocks[0], func(st2 *State, res *Val) {
		st2.frames = st2.frames[:len(st2.frames)-1]
		// join points of the returned activation are no longer pending on this path
		for len(st2.stops) > 0 && st2.stops[len(st2.stops)-1].depth >= len(st2.frames) {
			st2.stops = st2.stops[:len(st2.stops)-1]
		}
		ret(st2, res)
	})
}

func (x *Exec) evalPhis(st *State, fr *Frame, from, to *ssa.BasicBlock) int {
	// simultaneous assignment
	idx := -1
	for i, p := range to.Preds {
		if p == from {
			idx = i
			break
		}
	}
	type pv struct {
		phi *ssa.Phi
		v   *Val
	}
	var vals []pv
	n := 0
	for _, in := range to.Instrs {
		phi, ok := in.(*ssa.Phi)
		if !ok {
			break
		}
		n++
		if idx < 0 {
			panic("phi without pred")
		}
		vals = append(vals, pv{phi, x.val(st, fr, phi.Edges[idx])})
	}
	for _, p := range vals {
		fr.regs[p.phi] = p.v
		if p.phi.Comment != "" {
			fr.names[p.phi.Comment] = p.v
		}
	}
	return n
}

func (x *Exec) enterBlock(st *State, fr *Frame, from, to *ssa.BasicBlock, ret retFn) {
	if fr.depth == 0 && x.visitedBlocks != nil && !x.discover {
		x.visitedBlocks[to] = true
	}
	if n := len(st.stops); n > 0 && from != nil {
		sp := st.stops[n-1]
		if sp.depth == len(st.frames)-1 && sp.block == to {
			sp.caps = append(sp.caps, capture{st: st, from: from, side: sp.side})
			return
		}
	}
	li := loopsOf(fr.fn)
	if ord, isHeader := li.headers[to.Index]; isHeader {
		x.enterLoopHeader(st, fr, from, to, ord, li, ret)
		return
	}
	n := 0
	if from != nil {
		n = x.evalPhis(st, fr, from, to)
	}
	x.runFrom(st, fr, to, n, ret)
}

func (x *Exec) endPath(st *State, why string) {
	x.paths++
}

// branch explores a conditional successor under cond.
func (x *Exec) branch(st *State, cond *Term, label string, f func(st *State)) {
	if cond.isFalse() {
		return
	}
	if x.paths > x.maxPaths {
		x.aborted = "path limit exceeded"
		return
	}
	x.sess.Push()
	x.assume(st, cond, label)
	f(st)
	x.sess.Pop()
}

// feasible: may cond hold on this path?
func (x *Exec) feasible(st *State, cond *Term) bool {
	if cond.isTrue() {
		return true
	}
	if cond.isFalse() {
		return false
	}
	return x.sess.CheckWith(cond) != Unsat
}

func (x *Exec) fork2(st *State, cond *Term, label string, fThen, fElse func(st *State)) {
	ncond := Not(cond)
	okT := x.feasible(st, cond)
	okF := x.feasible(st, ncond)
	if okT && okF {
		st2 := st.clone()
		x.branch(st, cond, label, fThen)
		x.branch(st2, ncond, label, fElse)
		return
	}
	if okT {
		// cond is implied by the path condition: record it (cheap) and continue
		x.assume(st, cond, label+"(implied)")
		fThen(st)
		return
	}
	if okF {
		x.assume(st, ncond, label+"(implied)")
		fElse(st)
		return
	}
	// path condition itself infeasible
	x.endPath(st, "infeasible")
}

func (x *Exec) runFrom(st *State, fr *Frame, b *ssa.BasicBlock, idx int, ret retFn) {
	for i := idx; i < len(b.Instrs); i++ {
		if x.aborted != "" {
			return
		}
		x.instrs++
		in := b.Instrs[i]
		switch in := in.(type) {
		case *ssa.Phi:
			continue
		case *ssa.DebugRef:
			x.debugRef(st, fr, in)
		case *ssa.If:
			c := x.val(st, fr, in.Cond).T
			if h := b.Index; fr.auto[h] && fr.iter[h] == 0 && !fr.inLoop[h] {
				if !c.isTrue() && !c.isFalse() {
					// the loop condition is symbolic (not a literal after folding): cut the loop with
					// invariant true plus the automatically derived counter bounds. Loops with a
					// constant trip count fold to literals and are unrolled exactly instead.
					for i, ai := range x.autoInvariants(st, fr, b, loopsOf(fr.fn)) {
						x.check(st, ai, "invariant-entry", fmt.Sprintf("loop%d.auto#%d", loopsOf(fr.fn).headers[h], i+1), x.site(in.Pos()), "counter stays within its automatically derived bounds")
					}
					fr.inLoop[h] = true
					x.note("loop without invariant cut with invariant true: loop " + fmt.Sprint(loopsOf(fr.fn).headers[h]) + " of " + fnRelName(fr.fn))
					x.havocLoop(st, fr, b, loopsOf(fr.fn))
					for _, ai := range x.autoInvariants(st, fr, b, loopsOf(fr.fn)) {
						x.assume(st, ai, "auto invariant")
					}
					np := 0
					for _, pi := range b.Instrs {
						if _, ok := pi.(*ssa.Phi); !ok {
							break
						}
						np++
					}
					x.runFrom(st, fr, b, np, ret)
					return
				}
			}
			x.doIf(st, fr, b, c, "if@"+x.site(in.Pos()), ret)
			return
		case *ssa.Jump:
			x.enterBlock(st, fr, b, b.Succs[0], ret)
			return
		case *ssa.Return:
			var res *Val
			switch len(in.Results) {
			case 0:
				res = &Val{K: kTuple}
			case 1:
				res = x.val(st, fr, in.Results[0])
			default:
				res = &Val{K: kTuple, Typ: fr.fn.Signature.Results()}
				for _, r := range in.Results {
					res.F = append(res.F, x.val(st, fr, r))
				}
			}
			ret(st, res)
			return
		case *ssa.Panic:
			x.onPanic(st, fr, in)
			return
		case *ssa.RunDefers:
			ds := fr.defers
			fr.defers = nil
			x.runDefers(st, fr, ds, func(s *State) { x.runFrom(s, s.top(), b, i+1, ret) })
			return
		case *ssa.Defer:
			d := deferred{call: &in.Call, pos: in.Pos()}
			if !in.Call.IsInvoke() {
				d.fn = x.val(st, fr, in.Call.Value)
			} else {
				d.fn = x.val(st, fr, in.Call.Value)
			}
			for _, a := range in.Call.Args {
				d.args = append(d.args, x.val(st, fr, a))
			}
			fr.defers = append(fr.defers, d)
		case *ssa.Call:
			cont := func(s *State, res *Val) {
				f := s.top()
				f.regs[in] = res
				x.runFrom(s, f, b, i+1, ret)
			}
			x.doCall(st, fr, &in.Call, in, cont)
			return
		case *ssa.Go:
			x.note("go statement (abstracted): " + x.site(in.Pos()))
			x.havocAll(st, "go statement")
		case *ssa.Store:
			addr := x.val(st, fr, in.Addr)
			v := x.val(st, fr, in.Val)
			x.checkNonNil(st, addr, in.Pos())
			l := *addr.L
			l.T = in.Val.Type()
			x.frameCheck(st, &l, in.Pos())
			x.markEscaped(st, v)
			x.store(st, &l, v)
		case *ssa.MapUpdate:
			x.mapUpdate(st, fr, in)
		case *ssa.Send:
			x.note("channel send (abstracted): " + x.site(in.Pos()))
		case ssa.Value:
			v := x.evalValueInstr(st, fr, in)
			if v != nil {
				fr.regs[in] = v
			}
		default:
			panic(unsupported{fmt.Sprintf("instruction %T", in)})
		}
	}
}

func (x *Exec) debugRef(st *State, fr *Frame, d *ssa.DebugRef) {
	name := identName(d.Expr)
	if name == "" || name == "_" {
		return
	}
	// the selector of a field access (x.f) is an identifier too: only variables that are not
	// struct fields are source names of locals
	if obj, ok := d.Object().(*types.Var); ok && obj.IsField() {
		return
	}
	v := x.val(st, fr, d.X)
	if d.IsAddr {
		fr.names["&"+name] = v
		delete(fr.names, name)
	} else {
		fr.names[name] = v
		delete(fr.names, "&"+name)
	}
}

func (x *Exec) onPanic(st *State, fr *Frame, in *ssa.Panic) {
	if x.curCon != nil && x.curCon.has("maypanic") {
		x.endPath(st, "panic")
		return
	}
	x.check(st, TFalse, "safety", "panic-unreachable", x.site(in.Pos()), "explicit panic is unreachable")
	x.endPath(st, "panic")
}

func (x *Exec) runDefers(st *State, fr *Frame, ds []deferred, k func(st *State)) {
	if len(ds) == 0 {
		k(st)
		return
	}
	d := ds[len(ds)-1]
	rest := ds[:len(ds)-1]
	x.callValue(st, fr, d.call, d.fn, d.args, d.pos, func(s *State, _ *Val) {
		x.runDefers(s, s.top(), rest, k)
	})
}

// ---------- safety checks ----------

func (x *Exec) safetyOn() bool {
	return x.curCon == nil || !x.curCon.has("nosafety")
}

func (x *Exec) checkNonNil(st *State, p *Val, pos token.Pos) {
	if p.K != kPtr {
		panic(fmt.Sprintf("checkNonNil on non-pointer %s at %s", p, x.site(pos)))
	}
	if p.L.Idx != nil || p.L.Path != "" || strings.HasPrefix(p.L.Root, "G|") || st.fresh[p.L.Base.s] {
		return
	}
	g := Neq(p.L.Base, IntLit(0))
	if x.safetyOn() {
		x.check(st, g, "safety", "nil-deref", x.site(pos), "pointer is non-nil")
	} else {
		x.assume(st, g, "nosafety:nil")
	}
}

func (x *Exec) checkBounds(st *State, cond *Term, what string, pos token.Pos) {
	if x.safetyOn() {
		x.check(st, cond, "safety", what, x.site(pos), what)
	} else {
		x.assume(st, cond, "nosafety:"+what)
	}
}

// ---------- value instructions ----------

func (x *Exec) evalValueInstr(st *State, fr *Frame, in ssa.Value) *Val {
	switch in := in.(type) {
	case *ssa.Alloc:
		return x.doAlloc(st, in.Type().(*types.Pointer).Elem(), in.Type(), in.Comment)
	case *ssa.UnOp:
		return x.unop(st, fr, in)
	case *ssa.BinOp:
		a, b := x.val(st, fr, in.X), x.val(st, fr, in.Y)
		return x.binop(st, in.Op, a, b, in.X.Type(), in.Type(), in.Pos())
	case *ssa.FieldAddr:
		p := x.val(st, fr, in.X)
		x.checkNonNil(st, p, in.Pos())
		stt := in.X.Type().Underlying().(*types.Pointer).Elem().Underlying().(*types.Struct)
		f := stt.Field(in.Field)
		return &Val{K: kPtr, L: p.L.field(f.Name(), f.Type()), Typ: in.Type()}
	case *ssa.Field:
		s := x.val(st, fr, in.X)
		return s.F[in.Field]
	case *ssa.IndexAddr:
		return x.indexAddr(st, fr, in)
	case *ssa.Index:
		return x.index(st, fr, in)
	case *ssa.Slice:
		return x.sliceOp(st, fr, in)
	case *ssa.Extract:
		t := x.val(st, fr, in.Tuple)
		return t.F[in.Index]
	case *ssa.Convert:
		return x.convert(st, x.val(st, fr, in.X), in.X.Type(), in.Type(), in.Pos())
	case *ssa.ChangeType:
		v := *x.val(st, fr, in.X)
		v.Typ = in.Type()
		if v.K == kPtr {
			l := *v.L
			v.L = &l
		}
		return &v
	case *ssa.ChangeInterface:
		v := *x.val(st, fr, in.X)
		v.Typ = in.Type()
		return &v
	case *ssa.MakeInterface:
		return x.makeInterface(st, x.val(st, fr, in.X), in.X.Type(), in.Type())
	case *ssa.TypeAssert:
		return x.typeAssert(st, fr, in)
	case *ssa.MakeSlice:
		return x.makeSlice(st, fr, in)
	case *ssa.MakeClosure:
		fn := in.Fn.(*ssa.Function)
		v := &Val{K: kFunc, Fn: fn, Typ: in.Type()}
		for _, b := range in.Bindings {
			bv := x.val(st, fr, b)
			x.markEscaped(st, bv)
			v.Bind = append(v.Bind, bv)
		}
		return v
	case *ssa.MakeMap:
		return x.makeMap(st, in.Type())
	case *ssa.Lookup:
		return x.lookup(st, fr, in)
	case *ssa.Range:
		return x.rangeInit(st, fr, in)
	case *ssa.Next:
		return x.rangeNext(st, fr, in)
	case *ssa.MakeChan:
		x.note("make(chan) abstracted")
		return scalar(x.alloc(st), in.Type())
	case *ssa.Select:
		x.note("select abstracted: " + x.site(in.Pos()))
		x.havocAll(st, "select")
		return x.freshTyped(st, "select", in.Type())
	case *ssa.SliceToArrayPointer:
		panic(unsupported{"SliceToArrayPointer"})
	}
	panic(unsupported{fmt.Sprintf("value instruction %T", in)})
}

func (x *Exec) doAlloc(st *State, elem types.Type, ptrType types.Type, hint string) *Val {
	ref := x.alloc(st)
	if arr, ok := elem.Underlying().(*types.Array); ok {
		// backing array object
		l := &Loc{Base: ref, Root: "A|", T: elem}
		for _, lf := range flatten(arr.Elem()) {
			key := "E|" + typeKey(arr.Elem()) + "|" + lf.Path
			h := x.heapGet(st, key, lf.Sort)
			st.heap[key] = Store(h, ref, ConstArr(SArr(SInt, lf.Sort), zeroOfSort(lf.Sort)))
		}
		return &Val{K: kPtr, L: l, Typ: ptrType}
	}
	p := x.ptrVal(ref, elem, ptrType)
	x.store(st, p.L, x.zeroVal(elem))
	return p
}

func zeroOfSort(s string) *Term {
	switch s {
	case SInt:
		return IntLit(0)
	case SBool:
		return TFalse
	case SStr:
		return StrLit("")
	case "Real":
		return &Term{s: "0.0", sort: "Real"}
	}
	panic(unsupported{"zero of sort " + s})
}

func (x *Exec) unop(st *State, fr *Frame, in *ssa.UnOp) *Val {
	v := x.val(st, fr, in.X)
	switch in.Op {
	case token.MUL: // load
		x.checkNonNil(st, v, in.Pos())
		l := *v.L
		l.T = in.Type()
		if l.Root == "A|" {
			panic(unsupported{"load of whole array object"})
		}
		if strings.HasPrefix(l.Root, "G|") {
			x.initGlobal(st, &l)
		}
		return x.load(st, &l, nil)
	case token.NOT:
		return scalar(Not(v.T), in.Type())
	case token.SUB:
		if v.T.sort == "Real" {
			return scalar(app("Real", "-", v.T), in.Type())
		}
		b, _ := isIntType(in.Type())
		return scalar(x.arith(st, Neg(v.T), b, in.Pos()), in.Type())
	case token.XOR:
		b, _ := isIntType(in.Type())
		// ^x = -x-1 (signed) ; max-x (unsigned)
		_, signed := intBits(b)
		if signed {
			return scalar(Sub(Neg(v.T), IntLit(1)), in.Type())
		}
		_, hi, _ := intRange(b)
		return scalar(Sub(IntLitBig(hi), v.T), in.Type())
	case token.ARROW:
		x.note("channel receive abstracted: " + x.site(in.Pos()))
		return x.freshTyped(st, "recv", in.Type())
	}
	panic(unsupported{"unop " + in.Op.String()})
}

// arith post-processes a mathematical result r of integer type b: prove in range, or wrap.
func (x *Exec) arith(st *State, r *Term, b *types.Basic, pos token.Pos) *Term {
	lo, hi, ok := intRange(b)
	if !ok {
		return r
	}
	if knownIn(r, lo, hi) {
		return r
	}
	in := InRange(r, lo, hi)
	if x.curCon != nil && x.curCon.has("nooverflow") {
		x.check(st, in, "overflow", "no-overflow", x.site(pos), "integer operation does not overflow")
		return WithBounds(x.bind(st, r, "ar"), lo, hi)
	}
	if x.curCon != nil && x.curCon.Flags["arith"] == "wrap" {
		return x.bind(st, wrapTo(r, b), "ar")
	}
	if x.sess.CheckWith(Not(in)) == Unsat {
		return WithBounds(x.bind(st, r, "ar"), lo, hi)
	}
	return x.bind(st, wrapTo(r, b), "ar")
}

func (x *Exec) binop(st *State, op token.Token, a, b *Val, operandT, resT types.Type, pos token.Pos) *Val {
	switch op {
	case token.EQL:
		return scalar(x.valEq(st, a, b, operandT), resT)
	case token.NEQ:
		return scalar(Not(x.valEq(st, a, b, operandT)), resT)
	}
	if a.K != kScalar || b.K != kScalar {
		panic(unsupported{"binop on non-scalars " + op.String()})
	}
	at, bt := a.T, b.T
	if at.sort == SStr {
		switch op {
		case token.ADD:
			return scalar(StrConcat(at, bt), resT)
		case token.LSS:
			return scalar(StrLtT(at, bt), resT)
		case token.LEQ:
			return scalar(StrLeT(at, bt), resT)
		case token.GTR:
			return scalar(StrLtT(bt, at), resT)
		case token.GEQ:
			return scalar(StrLeT(bt, at), resT)
		}
	}
	if at.sort == "Real" {
		m := map[token.Token]string{token.ADD: "+", token.SUB: "-", token.MUL: "*", token.QUO: "/", token.LSS: "<", token.LEQ: "<=", token.GTR: ">", token.GEQ: ">="}
		o, ok := m[op]
		if !ok {
			panic(unsupported{"float op " + op.String()})
		}
		srt := "Real"
		if op == token.LSS || op == token.LEQ || op == token.GTR || op == token.GEQ {
			srt = SBool
		}
		x.note("floating point treated as real arithmetic")
		return scalar(app(srt, o, at, bt), resT)
	}
	if at.sort == SBool {
		panic(unsupported{"bool binop " + op.String()})
	}
	switch op {
	case token.LSS:
		return scalar(Lt(at, bt), resT)
	case token.LEQ:
		return scalar(Le(at, bt), resT)
	case token.GTR:
		return scalar(Gt(at, bt), resT)
	case token.GEQ:
		return scalar(Ge(at, bt), resT)
	}
	bt0, _ := isIntType(resT)
	if bt0 == nil {
		panic(unsupported{"integer binop with non-int result " + resT.String()})
	}
	var r *Term
	switch op {
	case token.ADD:
		r = Add(at, bt)
	case token.SUB:
		r = Sub(at, bt)
	case token.MUL:
		r = Mul(at, bt)
	case token.QUO:
		x.checkBounds(st, Neq(bt, IntLit(0)), "div-by-zero", pos)
		r = GoDiv(x.signHint(st, at), x.signHint(st, bt))
	case token.REM:
		x.checkBounds(st, Neq(bt, IntLit(0)), "div-by-zero", pos)
		r = GoRem(x.signHint(st, at), x.signHint(st, bt))
	case token.SHL:
		r = x.shl(st, at, bt, bt0)
	case token.SHR:
		r = x.shr(st, at, bt)
	case token.AND:
		r = x.bitop(st, "and", at, bt, bt0)
	case token.OR:
		r = x.bitop(st, "or", at, bt, bt0)
	case token.XOR:
		r = x.bitop(st, "xor", at, bt, bt0)
	case token.AND_NOT:
		r = x.bitop(st, "andnot", at, bt, bt0)
	default:
		panic(unsupported{"binop " + op.String()})
	}
	return scalar(x.arith(st, r, bt0, pos), resT)
}

func (x *Exec) litOf(st *State, t *Term) *big.Int {
	if t.lit != nil {
		return t.lit
	}
	if t.lo != nil && t.hi != nil && t.lo.Cmp(t.hi) == 0 {
		return t.lo
	}
	return nil
}

func (x *Exec) shl(st *State, a, n *Term, b *types.Basic) *Term {
	if k := x.litOf(st, n); k != nil && k.IsInt64() {
		bits, _ := intBits(b)
		if k.Int64() >= int64(bits) {
			return IntLit(0)
		}
		return Mul(a, IntLitBig(pow2(uint(k.Int64()))))
	}
	x.note("shift by symbolic amount: uninterpreted pow2")
	x.declareFun(st, "pow2", []string{SInt}, SInt)
	p := app(SInt, "pow2", n)
	return Mul(a, p)
}

func (x *Exec) shr(st *State, a, n *Term) *Term {
	if k := x.litOf(st, n); k != nil && k.IsInt64() {
		if k.Int64() >= 64 {
			return Ite(Ge(a, IntLit(0)), IntLit(0), IntLit(-1))
		}
		return EDiv(a, IntLitBig(pow2(uint(k.Int64()))))
	}
	x.note("shift by symbolic amount: uninterpreted pow2")
	x.declareFun(st, "pow2", []string{SInt}, SInt)
	p := app(SInt, "pow2", n)
	x.assume(st, Gt(p, IntLit(0)), "pow2>0")
	return EDiv(a, p)
}

// andConst computes x & c for a non-negative constant c.
func andConst(a *Term, c *big.Int) *Term {
	if c.Sign() == 0 {
		return IntLit(0)
	}
	res := IntLit(0)
	n := c.BitLen()
	i := 0
	for i < n {
		if c.Bit(i) == 0 {
			i++
			continue
		}
		j := i
		for j < n && c.Bit(j) == 1 {
			j++
		}
		// bits [i,j)
		part := EMod(EDiv(a, IntLitBig(pow2(uint(i)))), IntLitBig(pow2(uint(j-i))))
		res = Add(res, Mul(part, IntLitBig(pow2(uint(i)))))
		i = j
	}
	return res
}

func (x *Exec) bitop(st *State, op string, a, b *Term, bt *types.Basic) *Term {
	al, bl := x.litOf(st, a), x.litOf(st, b)
	if al != nil && bl != nil && al.Sign() >= 0 && bl.Sign() >= 0 {
		r := new(big.Int)
		switch op {
		case "and":
			r.And(al, bl)
		case "or":
			r.Or(al, bl)
		case "xor":
			r.Xor(al, bl)
		case "andnot":
			r.AndNot(al, bl)
		}
		return IntLitBig(r)
	}
	if al != nil && bl == nil && op != "andnot" {
		a, b, al, bl = b, a, bl, al
	}
	if bl != nil && bl.Sign() >= 0 {
		ac := andConst(a, bl)
		switch op {
		case "and":
			return ac
		case "or":
			return Sub(Add(a, IntLitBig(bl)), ac)
		case "xor":
			return Sub(Add(a, IntLitBig(bl)), Mul(IntLit(2), ac))
		case "andnot":
			return Sub(a, ac)
		}
	}
	// 0/1-valued operands? generic fallback: uninterpreted
	x.note("bitwise " + op + " on two symbolic operands: uninterpreted")
	fn := "bit_" + op
	x.declareFun(st, fn, []string{SInt, SInt}, SInt)
	r := app(SInt, fn, a, b)
	lo, hi, _ := intRange(bt)
	x.assumeRange(st, r, lo, hi)
	if op == "and" && a.lo != nil && a.lo.Sign() >= 0 && b.lo != nil && b.lo.Sign() >= 0 {
		x.assume(st, And(Ge(r, IntLit(0)), Le(r, a), Le(r, b)), "and-bound")
	}
	return r
}

// valEq compares two values of the same static type.
func (x *Exec) valEq(st *State, a, b *Val, t types.Type) *Term {
	if a.K == kNil && b.K == kNil {
		return TTrue
	}
	if a.K == kNil {
		a, b = b, a
	}
	switch a.K {
	case kScalar:
		if b.K == kNil {
			return Eq(a.T, IntLit(0))
		}
		if b.K != kScalar || b.T == nil {
			panic(specError{msg: fmt.Sprintf("comparison of the scalar %s with a non-scalar value (%s)", a.T.s, b)})
		}
		return Eq(a.T, b.T)
	case kPtr:
		if b.K == kNil {
			if a.L.Path != "" || a.L.Idx != nil {
				return TFalse
			}
			return Eq(a.L.Base, IntLit(0))
		}
		if b.K != kPtr {
			panic("ptr compared with non-ptr")
		}
		if a.L.Path != b.L.Path || (a.L.Idx == nil) != (b.L.Idx == nil) {
			return TFalse
		}
		e := Eq(a.L.Base, b.L.Base)
		if a.L.Idx != nil {
			e = And(e, Eq(a.L.Idx, b.L.Idx))
		}
		return e
	case kIface:
		if b.K == kNil {
			return Eq(a.Tag, IntLit(0))
		}
		if b.K == kIface {
			return And(Eq(a.Tag, b.Tag), Eq(a.Ptr, b.Ptr))
		}
	case kSlice:
		if b.K == kNil {
			return Eq(a.Arr, IntLit(0))
		}
		// Go compares a slice only with nil: one side is the typed nil slice constant
		if b.K == kSlice && b.Arr != nil && b.Arr.lit != nil && b.Arr.lit.Sign() == 0 {
			return Eq(a.Arr, IntLit(0))
		}
		if b.K == kSlice && a.Arr != nil && a.Arr.lit != nil && a.Arr.lit.Sign() == 0 {
			return Eq(b.Arr, IntLit(0))
		}
	case kStruct, kArray, kTuple:
		if b.K == a.K && len(a.F) == len(b.F) {
			var cs []*Term
			for i := range a.F {
				cs = append(cs, x.valEq(st, a.F[i], b.F[i], nil))
			}
			return And(cs...)
		}
	case kFunc:
		if b.K == kNil {
			if a.Fn != nil {
				return TFalse
			}
			if a.T != nil {
				return Eq(a.T, IntLit(0))
			}
		}
		if b.K == kFunc {
			// Go only allows comparing a func value with nil: one side is the nil func (id 0)
			switch {
			case a.Fn != nil && b.Fn != nil:
				return BoolLit(a.Fn == b.Fn)
			case a.Fn != nil && b.T != nil:
				return Eq(IntLit(x.funcID(a)), b.T)
			case b.Fn != nil && a.T != nil:
				return Eq(IntLit(x.funcID(b)), a.T)
			case a.T != nil && b.T != nil:
				return Eq(a.T, b.T)
			}
		}
	}
	panic(unsupported{fmt.Sprintf("equality on %s and %s", a, b)})
}

// ---------- conversions ----------

func (x *Exec) convert(st *State, v *Val, from, to types.Type, pos token.Pos) *Val {
	fb, fInt := isIntType(from)
	tb, tInt := isIntType(to)
	_ = fb
	if fInt && tInt {
		return scalar(x.bind(st, wrapTo(v.T, tb), "cv"), to)
	}
	fu, tu := from.Underlying(), to.Underlying()
	if fbas, ok := fu.(*types.Basic); ok {
		if tbas, ok2 := tu.(*types.Basic); ok2 {
			switch {
			case fbas.Info()&types.IsString != 0 && tbas.Info()&types.IsString != 0:
				return scalar(v.T, to)
			case fbas.Info()&types.IsFloat != 0 && tbas.Info()&types.IsFloat != 0:
				return scalar(v.T, to)
			case fbas.Info()&types.IsInteger != 0 && tbas.Info()&types.IsFloat != 0:
				return scalar(app("Real", "to_real", v.T), to)
			case fbas.Info()&types.IsFloat != 0 && tbas.Info()&types.IsInteger != 0:
				x.note("float->int conversion: truncation modelled, overflow ignored")
				// truncate toward zero
				fl := app(SInt, "to_int", v.T)
				neg := app(SInt, "-", app(SInt, "to_int", app("Real", "-", v.T)))
				r := Ite(app(SBool, ">=", v.T, &Term{s: "0.0", sort: "Real"}), fl, neg)
				return scalar(x.bind(st, wrapTo(r, tbas), "f2i"), to)
			case fbas.Info()&types.IsInteger != 0 && tbas.Info()&types.IsString != 0:
				x.note("int->string(rune) conversion: uninterpreted")
				return x.freshTyped(st, "runestr", to)
			case fbas.Kind() == types.UnsafePointer || tbas.Kind() == types.UnsafePointer:
				panic(unsupported{"unsafe pointer conversion"})
			}
		}
		// string -> []byte
		if fbas.Info()&types.IsString != 0 {
			if ts, ok := tu.(*types.Slice); ok {
				return x.stringToBytes(st, v.T, ts, to)
			}
		}
	}
	if fs, ok := fu.(*types.Slice); ok {
		if tbas, ok2 := tu.(*types.Basic); ok2 && tbas.Info()&types.IsString != 0 {
			return x.bytesToString(st, v, fs, to)
		}
	}
	if _, ok := fu.(*types.Pointer); ok {
		if _, ok2 := tu.(*types.Pointer); ok2 {
			nv := *v
			nv.Typ = to
			return &nv
		}
	}
	panic(unsupported{fmt.Sprintf("conversion %s -> %s", from, to)})
}

func (x *Exec) stringToBytes(st *State, s *Term, ts *types.Slice, to types.Type) *Val {
	ref := x.alloc(st)
	n := StrLen(s)
	key := "E|" + typeKey(ts.Elem()) + "|"
	h := x.heapGet(st, key, SInt)
	inner := x.freshConst(st, "s2b", SArr(SInt, SInt))
	if s.slit != nil && len(*s.slit) <= 64 {
		var cur *Term = ConstArr(SArr(SInt, SInt), IntLit(0))
		for i := 0; i < len(*s.slit); i++ {
			cur = Store(cur, IntLit(int64(i)), IntLit(int64((*s.slit)[i])))
		}
		inner = cur
	} else {
		i := Var("i!s2b", SInt)
		body := Implies(And(Le(IntLit(0), i), Lt(i, n)), app(SBool, "=", app(SInt, "select", inner, i), app(SInt, "str.to_code", app(SStr, "str.at", s, i))))
		x.assume(st, Forall([][2]string{{"i!s2b", SInt}}, body, []*Term{app(SInt, "select", inner, i)}), "string->bytes")
	}
	st.heap[key] = Store(h, ref, inner)
	if st.strSrc == nil {
		st.strSrc = map[string]*strSrc{}
	}
	st.strSrc[ref.s] = &strSrc{s: s, inner: inner}
	return &Val{K: kSlice, Arr: ref, Off: IntLit(0), Len: n, Cap: n, Typ: to}
}

// strSrc remembers that a byte array was created as []byte(s), so that string(b[i:j]) of the
// unmodified array is the corresponding substring of s.
type strSrc struct {
	s     *Term
	inner *Term
}

func (x *Exec) bytesToString(st *State, v *Val, fs *types.Slice, to types.Type) *Val {
	return x.bytesToStringIn(st, v, fs, to, nil)
}

// bytesToStringIn converts with the byte contents taken from heap view h (nil: the current heap).
func (x *Exec) bytesToStringIn(st *State, v *Val, fs *types.Slice, to types.Type, h *HeapSnap) *Val {
	key := "E|" + typeKey(fs.Elem()) + "|"
	var harr *Term
	if h != nil {
		harr = x.heapIn(st, *h, key, SInt)
	} else {
		harr = x.heapGet(st, key, SInt)
	}
	inner := Select(harr, v.Arr)
	if src, ok := st.strSrc[v.Arr.s]; ok && x.inQuant == 0 {
		if inner.s == src.inner.s || x.sess.CheckWith(Not(app(SBool, "=", inner, src.inner))) == Unsat {
			return scalar(x.bind(st, StrSubstr(src.s, v.Off, v.Len), "b2s"), to)
		}
	}
	// the same bytes (same array term, offset and length) convert to the same string term, so
	// that a specification can name the string the code computed
	ck := ""
	if x.inQuant == 0 {
		ck = "b2s:" + v.Arr.s + "|" + v.Off.s + "|" + v.Len.s + "|" + inner.s
		if c, ok := st.ghost[ck]; ok && c.sort == SStr {
			return scalar(c, to)
		}
	}
	s := x.freshConst(st, "b2s", SStr)
	if ck != "" {
		st.ghost[ck] = s
	}
	x.assumeStr(st, s)
	x.assume(st, Eq(StrLen(s), v.Len), "bytes->string len")
	i := Var("i!b2s", SInt)
	body := Implies(And(Le(IntLit(0), i), Lt(i, v.Len)), app(SBool, "=", app(SInt, "str.to_code", app(SStr, "str.at", s, i)), Select(inner, Add(v.Off, i))))
	x.assume(st, Forall([][2]string{{"i!b2s", SInt}}, body, []*Term{app(SStr, "str.at", s, i)}), "bytes->string")
	return scalar(s, to)
}

// ---------- interfaces ----------

func (x *Exec) makeInterface(st *State, v *Val, from, to types.Type) *Val {
	tag := IntLit(x.typeID(from))
	if v.K == kPtr && v.L.Path == "" && v.L.Idx == nil {
		return &Val{K: kIface, Tag: tag, Ptr: v.L.Base, Typ: to}
	}
	if v.K == kPtr {
		panic(unsupported{"interior pointer boxed into interface"})
	}
	// box the value
	ref := x.alloc(st)
	l := &Loc{Base: ref, Root: "B|" + typeKey(from), T: from}
	x.store(st, l, v)
	return &Val{K: kIface, Tag: tag, Ptr: ref, Typ: to}
}

func (x *Exec) unbox(st *State, iv *Val, t types.Type) *Val {
	if pt, ok := t.Underlying().(*types.Pointer); ok {
		return x.ptrVal(iv.Ptr, pt.Elem(), t)
	}
	l := &Loc{Base: iv.Ptr, Root: "B|" + typeKey(t), T: t}
	return x.load(st, l, nil)
}

func (x *Exec) typeAssert(st *State, fr *Frame, in *ssa.TypeAssert) *Val {
	iv := x.val(st, fr, in.X)
	at := in.AssertedType
	var ok *Term
	var res *Val
	if _, isIface := at.Underlying().(*types.Interface); isIface {
		// interface-to-interface: decided when the dynamic type is known
		if iv.Tag.lit != nil {
			if iv.Tag.lit.Sign() == 0 {
				ok = TFalse
			} else {
				dt := x.typeByID[iv.Tag.lit.Int64()]
				ok = BoolLit(types.Implements(dt, at.Underlying().(*types.Interface)))
			}
		} else {
			ok = x.freshConst(st, "implements", SBool)
			x.assume(st, Implies(ok, Neq(iv.Tag, IntLit(0))), "iface-assert")
			x.note("interface-to-interface assertion on unknown dynamic type: nondeterministic")
		}
		nv := *iv
		nv.Typ = at
		res = &nv
	} else {
		ok = Eq(iv.Tag, IntLit(x.typeID(at)))
		res = x.unbox(st, iv, at)
	}
	if in.CommaOk {
		// result value is zero when !ok; we keep the unboxed value guarded by ok (sound for
		// programs that only use it when ok; otherwise ite would be needed)
		return &Val{K: kTuple, F: []*Val{res, scalar(ok, types.Typ[types.Bool])}, Typ: in.Type()}
	}
	x.checkBounds(st, ok, "type-assertion", in.Pos())
	return res
}

// ---------- slices, arrays, strings ----------

func (x *Exec) elemRoot(t types.Type) string { return "E|" + typeKey(t) }

func (x *Exec) indexAddr(st *State, fr *Frame, in *ssa.IndexAddr) *Val {
	base := x.val(st, fr, in.X)
	idx := x.val(st, fr, in.Index).T
	et := in.Type().(*types.Pointer).Elem()
	switch xt := in.X.Type().Underlying().(type) {
	case *types.Slice:
		x.checkBounds(st, And(Le(IntLit(0), idx), Lt(idx, base.Len)), "index-in-range", in.Pos())
		return &Val{K: kPtr, L: &Loc{Base: base.Arr, Root: x.elemRoot(et), Idx: Add(base.Off, idx), T: et}, Typ: in.Type()} // kept as (+ off idx): quantified facts over slices trigger on that shape
	case *types.Pointer:
		arr := xt.Elem().Underlying().(*types.Array)
		x.checkNonNil(st, base, in.Pos())
		x.checkBounds(st, And(Le(IntLit(0), idx), Lt(idx, IntLit(arr.Len()))), "index-in-range", in.Pos())
		if base.L.Root == "A|" {
			return &Val{K: kPtr, L: &Loc{Base: base.L.Base, Root: x.elemRoot(et), Idx: idx, T: et}, Typ: in.Type()}
		}
		// array embedded in an object: flattened path, needs constant index
		if k := x.litOf(st, idx); k != nil {
			l := &Loc{Base: base.L.Base, Root: base.L.Root, Path: base.L.Path + fmt.Sprintf("[%d]", k.Int64()), Idx: base.L.Idx, T: et}
			return &Val{K: kPtr, L: l, Typ: in.Type()}
		}
		panic(unsupported{"symbolic index into array embedded in struct"})
	}
	panic(unsupported{"IndexAddr on " + in.X.Type().String()})
}

func (x *Exec) index(st *State, fr *Frame, in *ssa.Index) *Val {
	base := x.val(st, fr, in.X)
	idx := x.val(st, fr, in.Index).T
	switch xt := in.X.Type().Underlying().(type) {
	case *types.Array:
		x.checkBounds(st, And(Le(IntLit(0), idx), Lt(idx, IntLit(xt.Len()))), "index-in-range", in.Pos())
		if k := x.litOf(st, idx); k != nil {
			return base.F[k.Int64()]
		}
		// ite chain over scalar elements
		if len(base.F) > 0 && base.F[0].K == kScalar {
			cur := base.F[len(base.F)-1].T
			for i := len(base.F) - 2; i >= 0; i-- {
				cur = Ite(Eq(idx, IntLit(int64(i))), base.F[i].T, cur)
			}
			return scalar(cur, in.Type())
		}
		panic(unsupported{"symbolic index into array value"})
	case *types.Basic: // string
		n := StrLen(base.T)
		x.checkBounds(st, And(Le(IntLit(0), idx), Lt(idx, n)), "index-in-range", in.Pos())
		return scalar(WithBounds(StrAtCode(base.T, idx), bigI(0), bigI(255)), in.Type())
	}
	panic(unsupported{"Index on " + in.X.Type().String()})
}

func (x *Exec) sliceOp(st *State, fr *Frame, in *ssa.Slice) *Val {
	base := x.val(st, fr, in.X)
	var lo, hi, max *Term
	if in.Low != nil {
		lo = x.val(st, fr, in.Low).T
	}
	if in.High != nil {
		hi = x.val(st, fr, in.High).T
	}
	if in.Max != nil {
		max = x.val(st, fr, in.Max).T
	}
	switch xt := in.X.Type().Underlying().(type) {
	case *types.Slice:
		return x.reslice(st, base, lo, hi, max, in.Type(), in.Pos())
	case *types.Basic: // string
		n := StrLen(base.T)
		if lo == nil {
			lo = IntLit(0)
		}
		if hi == nil {
			hi = n
		}
		x.checkBounds(st, And(Le(IntLit(0), lo), Le(lo, hi), Le(hi, n)), "slice-in-range", in.Pos())
		return scalar(x.bind(st, StrSubstr(base.T, lo, Sub(hi, lo)), "ss"), in.Type())
	case *types.Pointer:
		arr := xt.Elem().Underlying().(*types.Array)
		x.checkNonNil(st, base, in.Pos())
		if base.L.Root != "A|" {
			panic(unsupported{"slicing an array embedded in a struct"})
		}
		n := IntLit(arr.Len())
		full := &Val{K: kSlice, Arr: base.L.Base, Off: IntLit(0), Len: n, Cap: n, Typ: in.Type()}
		return x.reslice(st, full, lo, hi, max, in.Type(), in.Pos())
	}
	panic(unsupported{"Slice on " + in.X.Type().String()})
}

func (x *Exec) reslice(st *State, base *Val, lo, hi, max *Term, t types.Type, pos token.Pos) *Val {
	if lo == nil {
		lo = IntLit(0)
	}
	if hi == nil {
		hi = base.Len
	}
	capEnd := base.Cap
	if max != nil {
		capEnd = max
	}
	conds := []*Term{Le(IntLit(0), lo), Le(lo, hi), Le(hi, capEnd)}
	if max != nil {
		conds = append(conds, Le(max, base.Cap))
	}
	x.checkBounds(st, And(conds...), "slice-in-range", pos)
	return &Val{K: kSlice, Arr: base.Arr, Off: x.bind(st, Add(base.Off, lo), "so"), Len: x.bind(st, Sub(hi, lo), "sl"), Cap: x.bind(st, Sub(capEnd, lo), "sc"), Typ: t}
}

func (x *Exec) makeSlice(st *State, fr *Frame, in *ssa.MakeSlice) *Val {
	n := x.val(st, fr, in.Len).T
	c := x.val(st, fr, in.Cap).T
	x.checkBounds(st, And(Le(IntLit(0), n), Le(n, c), Le(c, IntLitBig(maxAddr))), "make-size", in.Pos())
	return x.newSlice(st, in.Type(), n, c)
}

func (x *Exec) newSlice(st *State, t types.Type, n, c *Term) *Val {
	ref := x.alloc(st)
	et := t.Underlying().(*types.Slice).Elem()
	for _, lf := range flatten(et) {
		key := x.elemRoot(et) + "|" + lf.Path
		h := x.heapGet(st, key, lf.Sort)
		st.heap[key] = Store(h, ref, ConstArr(SArr(SInt, lf.Sort), zeroOfSort(lf.Sort)))
	}
	return &Val{K: kSlice, Arr: ref, Off: IntLit(0), Len: n, Cap: c, Typ: t}
}

