package main

// Loading /repo packages into go/ssa and parsing //@ contract comments.

import (
	"go/build/constraint"
	"fmt"
	"go/ast"
	"go/parser"
	"go/token"
	"go/types"
	"os"
	"path/filepath"
	"regexp"
	"sort"
	"strconv"
	"strings"

	"golang.org/x/tools/go/packages"
	"golang.org/x/tools/go/ssa"
	"golang.org/x/tools/go/ssa/ssautil"
)

const modPath = "github.com/chrislusf/seaweedfs/"

type Clause struct {
	Kind string // requires ensures modifies invariant decreases unroll let
	Loop int    // loop ordinal, -1 if not a loop clause
	Text string
	Expr ast.Expr
	Name string // for let; also clause label
	File string
	Line int
	ID   string // stable id e.g. ensures#2
	Only []string // "for C40: <clause>": the clause belongs to these properties only (empty: all of the contract's)
}

type Contract struct {
	Pkg      string // import path
	Func     string // ssa-relative name: F, (*T).M, (T).M, F$1
	Props    []string
	Flags    map[string]string // pure, nosafety, trusted, extern, arith, inline, lemma ...
	Clauses  []*Clause
	Extern   bool
	File     string
	Line     int
	Fn       *ssa.Function
	ParamsOverride []string
}

func (c *Contract) Key() string { return c.Pkg + "." + c.Func }

func (c *Contract) has(flag string) bool { _, ok := c.Flags[flag]; return ok }

func (c *Contract) of(kind string, loop int) []*Clause {
	var out []*Clause
	for _, cl := range c.Clauses {
		if cl.Kind == kind && cl.Loop == loop {
			out = append(out, cl)
		}
	}
	return out
}

type SpecFn struct {
	Name   string
	Params []string
	Body   ast.Expr
	Text   string
	File   string
	Line   int
}

type UFun struct {
	Name string
	Args []string
	Res  string
}

type World struct {
	Repo      string
	Tags      string
	Prog      *ssa.Program
	Pkgs      []*packages.Package
	SSAPkgs   map[string]*ssa.Package
	Contracts map[string]*Contract // key: pkgpath.Func
	Specs     map[string]*SpecFn
	UFuns     map[string]*UFun
	ByFn      map[*ssa.Function]*Contract
	Fset      *token.FileSet
}

var reOnly = regexp.MustCompile(`^for (C[0-9]+(?:\s*,\s*C[0-9]+)*):\s*(.*)$`)
var reFunc = regexp.MustCompile(`^(func|extern|lemma)\s+(\S+)\s*(.*)$`)

// parseContractFile reads //@ lines from a Go source file.
func parseContractText(w *World, pkgPath, file string, src []byte) error {
	lines := strings.Split(string(src), "\n")
	var cur *Contract
	counters := map[string]int{}
	// join continuation lines
	type ln struct {
		text string
		no   int
	}
	var ls []ln
	for i, l := range lines {
		t := strings.TrimSpace(l)
		if !strings.HasPrefix(t, "//@") {
			continue
		}
		t = strings.TrimSpace(t[3:])
		if t == "" || strings.HasPrefix(t, "#") {
			continue
		}
		if strings.HasPrefix(t, "..") && len(ls) > 0 {
			ls[len(ls)-1].text += " " + strings.TrimSpace(t[2:])
			continue
		}
		ls = append(ls, ln{t, i + 1})
	}
	for _, l := range ls {
		t := l.text
		if m := reFunc.FindStringSubmatch(t); m != nil {
			name := m[2]
			c := &Contract{Pkg: pkgPath, Func: name, Flags: map[string]string{}, File: file, Line: l.no}
			if m[1] == "extern" {
				c.Extern = true
				c.Flags["trusted"] = ""
				// extern names are fully qualified: pkgpath.F or (*pkgpath.T).M ; keep as given
				c.Pkg = ""
			}
			if m[1] == "lemma" {
				c.Flags["lemma"] = ""
			}
			toks := strings.Fields(m[3])
			for i := 0; i < len(toks); i++ {
				switch toks[i] {
				case "props":
					for i+1 < len(toks) && regexp.MustCompile(`^C[0-9]+,?$`).MatchString(toks[i+1]) {
						c.Props = append(c.Props, strings.TrimSuffix(toks[i+1], ","))
						i++
					}
				case "arith", "paths", "params", "tags", "unrollall", "uses", "deadblocks", "deadcode":
					if i+1 < len(toks) {
						c.Flags[toks[i]] = toks[i+1]
						i++
					}
				default:
					c.Flags[toks[i]] = ""
				}
			}
			if p, ok := c.Flags["params"]; ok {
				c.ParamsOverride = strings.Split(p, ",")
			}
			key := c.Key()
			if c.Extern {
				key = name
				if pkgPath != "" {
					// an extern declared in a package's contract file abstracts the callee only in
					// the functions of that package (spec/externs.spec is global)
					key = name + "@" + pkgPath
				}
			}
			if _, dup := w.Contracts[key]; dup {
				return fmt.Errorf("%s:%d: duplicate contract for %s", file, l.no, key)
			}
			w.Contracts[key] = c
			cur = c
			counters = map[string]int{}
			continue
		}
		if strings.HasPrefix(t, "ufun ") {
			// ufun name(Sort, Sort) Sort   -- uninterpreted function
			rest := strings.TrimSpace(t[5:])
			lp := strings.Index(rest, "(")
			rp := strings.LastIndex(rest, ")")
			if lp < 0 || rp < lp {
				return fmt.Errorf("%s:%d: bad ufun declaration", file, l.no)
			}
			name := strings.TrimSpace(rest[:lp])
			var sorts []string
			for _, p := range splitTopLevel(rest[lp+1 : rp]) {
				sorts = append(sorts, p)
			}
			w.UFuns[name] = &UFun{Name: name, Args: sorts, Res: strings.TrimSpace(rest[rp+1:])}
			continue
		}
		if strings.HasPrefix(t, "spec ") {
			// spec name(a, b) = expr
			rest := strings.TrimSpace(t[5:])
			eq := strings.Index(rest, "=")
			lp := strings.Index(rest, "(")
			rp := strings.Index(rest, ")")
			if eq < 0 || lp < 0 || rp < lp || rp > eq {
				return fmt.Errorf("%s:%d: bad spec definition", file, l.no)
			}
			name := strings.TrimSpace(rest[:lp])
			var ps []string
			for _, p := range strings.Split(rest[lp+1:rp], ",") {
				if p = strings.TrimSpace(p); p != "" {
					ps = append(ps, p)
				}
			}
			body := strings.TrimSpace(rest[eq+1:])
			e, err := parser.ParseExpr(body)
			if err != nil {
				return fmt.Errorf("%s:%d: spec %s: %v", file, l.no, name, err)
			}
			w.Specs[name] = &SpecFn{Name: name, Params: ps, Body: e, Text: body, File: file, Line: l.no}
			continue
		}
		if cur == nil {
			return fmt.Errorf("%s:%d: clause outside of a func block: %s", file, l.no, t)
		}
		cl := &Clause{Loop: -1, File: file, Line: l.no}
		if m := reOnly.FindStringSubmatch(t); m != nil {
			for _, p := range strings.Split(m[1], ",") {
				cl.Only = append(cl.Only, strings.TrimSpace(p))
			}
			t = strings.TrimSpace(m[2])
		}
		if strings.HasPrefix(t, "loop ") {
			f := strings.Fields(t)
			if len(f) < 3 {
				return fmt.Errorf("%s:%d: bad loop clause", file, l.no)
			}
			n, err := strconv.Atoi(f[1])
			if err != nil {
				return fmt.Errorf("%s:%d: bad loop ordinal", file, l.no)
			}
			cl.Loop = n
			t = strings.TrimSpace(strings.TrimPrefix(strings.TrimSpace(t[5:]), f[1]))
		}
		sp := strings.IndexAny(t, " \t")
		kind, rest := t, ""
		if sp >= 0 {
			kind, rest = t[:sp], strings.TrimSpace(t[sp+1:])
		}
		cl.Kind = kind
		cl.Text = rest
		switch kind {
		case "requires", "ensures", "invariant", "decreases", "assert", "assume":
			e, err := parser.ParseExpr(rest)
			if err != nil {
				return fmt.Errorf("%s:%d: %s: %v", file, l.no, kind, err)
			}
			cl.Expr = e
		case "let":
			eq := strings.Index(rest, "=")
			if eq < 0 {
				return fmt.Errorf("%s:%d: bad let", file, l.no)
			}
			cl.Name = strings.TrimSpace(rest[:eq])
			e, err := parser.ParseExpr(strings.TrimSpace(rest[eq+1:]))
			if err != nil {
				return fmt.Errorf("%s:%d: let: %v", file, l.no, err)
			}
			cl.Expr = e
		case "sink":
			// sink "callee" requires EXPR  -- guard obligation: EXPR is checked in the state in
			// which the function under verification calls callee (every such call)
			r := strings.TrimSpace(rest)
			if !strings.HasPrefix(r, "\"") {
				return fmt.Errorf("%s:%d: sink: expected a quoted callee name", file, l.no)
			}
			q := strings.Index(r[1:], "\"")
			if q < 0 {
				return fmt.Errorf("%s:%d: sink: unterminated callee name", file, l.no)
			}
			cl.Name = r[1 : 1+q]
			r = strings.TrimSpace(r[q+2:])
			if !strings.HasPrefix(r, "requires ") {
				return fmt.Errorf("%s:%d: sink: expected 'requires' after the callee name", file, l.no)
			}
			e, err := parser.ParseExpr(strings.TrimSpace(r[len("requires "):]))
			if err != nil {
				return fmt.Errorf("%s:%d: sink: %v", file, l.no, err)
			}
			cl.Expr = e
		case "modifies", "unroll", "havoc", "note":
		default:
			return fmt.Errorf("%s:%d: unknown clause kind %q", file, l.no, kind)
		}
		ck := kind
		if cl.Loop >= 0 {
			ck = fmt.Sprintf("loop%d.%s", cl.Loop, kind)
		}
		counters[ck]++
		cl.ID = fmt.Sprintf("%s#%d", ck, counters[ck])
		cur.Clauses = append(cur.Clauses, cl)
	}
	return nil
}

// contractFiles finds contracts_verif*.go under repo/weed.
func contractFiles(repo string) []string {
	var out []string
	filepath.Walk(filepath.Join(repo, "weed"), func(p string, info os.FileInfo, err error) error {
		if err != nil {
			return nil
		}
		if !info.IsDir() && strings.HasPrefix(info.Name(), "contracts_verif") && strings.HasSuffix(info.Name(), ".go") {
			out = append(out, p)
		}
		return nil
	})
	sort.Strings(out)
	return out
}

// buildTagsMatch evaluates the //go:build line of a contract file against a tag set.
func buildTagsMatch(src []byte, tags string) bool {
	have := map[string]bool{}
	for _, t := range strings.Split(tags, ",") {
		have[strings.TrimSpace(t)] = true
	}
	for _, line := range strings.SplitN(string(src), "\n", 6) {
		if constraint.IsGoBuild(line) {
			e, err := constraint.Parse(line)
			if err != nil {
				return true
			}
			return e.Eval(func(tag string) bool { return have[tag] })
		}
	}
	return true
}

func LoadContracts(repo string, extra []string, tags string) (*World, error) {
	w := &World{Repo: repo, Contracts: map[string]*Contract{}, Specs: map[string]*SpecFn{}, UFuns: map[string]*UFun{}, ByFn: map[*ssa.Function]*Contract{}}
	for _, f := range contractFiles(repo) {
		src, err := os.ReadFile(f)
		if err != nil {
			return nil, err
		}
		if !buildTagsMatch(src, tags) {
			continue
		}
		rel, _ := filepath.Rel(repo, filepath.Dir(f))
		pkgPath := modPath + filepath.ToSlash(rel)
		if err := parseContractText(w, pkgPath, f, src); err != nil {
			return nil, err
		}
	}
	for _, f := range extra {
		src, err := os.ReadFile(f)
		if err != nil {
			return nil, err
		}
		if err := parseContractText(w, "", f, src); err != nil {
			return nil, err
		}
	}
	return w, nil
}

// LoadSSA loads the given package paths (plus deps) with the given build tags.
func (w *World) LoadSSA(pkgPaths []string, tags string, overlay map[string][]byte) error {
	cfg := &packages.Config{
		Mode:       packages.LoadSyntax | packages.NeedDeps | packages.NeedImports,
		Dir:        w.Repo,
		BuildFlags: []string{"-tags=" + tags},
		Env:        append(os.Environ(), "GOFLAGS=-mod=mod", "GOPROXY=off", "GOSUMDB=off", "GOTOOLCHAIN=local"),
		Overlay:    overlay,
	}
	pkgs, err := packages.Load(cfg, pkgPaths...)
	if err != nil {
		return err
	}
	nerr := 0
	for _, p := range pkgs {
		for _, e := range p.Errors {
			fmt.Fprintf(os.Stderr, "load error: %s: %v\n", p.PkgPath, e)
			nerr++
		}
	}
	if nerr > 0 {
		return fmt.Errorf("%d package load errors", nerr)
	}
	prog, spkgs := ssautil.Packages(pkgs, ssa.GlobalDebug|ssa.InstantiateGenerics)
	w.Prog = prog
	w.Pkgs = pkgs
	w.Tags = tags
	w.SSAPkgs = map[string]*ssa.Package{}
	for i, sp := range spkgs {
		if sp != nil {
			sp.Build()
			w.SSAPkgs[pkgs[i].PkgPath] = sp
		}
	}
	if len(pkgs) > 0 {
		w.Fset = pkgs[0].Fset
	}
	return nil
}

// fnRelName renders an ssa function the way contracts name it.
func fnRelName(f *ssa.Function) string {
	if f.Parent() != nil {
		// closure: Parent$N
		name := f.Name() // e.g. Parent$1
		p := f.Parent()
		for p.Parent() != nil {
			p = p.Parent()
		}
		pn := fnRelName(p)
		if i := strings.Index(name, "$"); i >= 0 {
			return pn + name[i:]
		}
		return pn + "$" + name
	}
	if recv := f.Signature.Recv(); recv != nil {
		ts := recv.Type().String()
		ptr := ""
		if strings.HasPrefix(ts, "*") {
			ptr = "*"
			ts = ts[1:]
		}
		if i := strings.LastIndex(ts, "."); i >= 0 {
			ts = ts[i+1:]
		}
		return "(" + ptr + ts + ")." + f.Name()
	}
	return f.Name()
}

func fnFullKey(f *ssa.Function) string {
	pk := ""
	if f.Pkg != nil {
		pk = f.Pkg.Pkg.Path()
	} else if f.Parent() != nil && f.Parent().Pkg != nil {
		pk = f.Parent().Pkg.Pkg.Path()
	} else if recv := f.Signature.Recv(); recv != nil {
		// synthetic wrappers etc.
		ts := recv.Type().String()
		ts = strings.TrimPrefix(ts, "*")
		if i := strings.LastIndex(ts, "."); i >= 0 {
			pk = ts[:i]
		}
	}
	return pk + "." + fnRelName(f)
}

// externKey: name used by extern contracts: "strconv.Atoi", "(*os.File).ReadAt", "(io.Reader).Read"
func externKey(pkgPath, recvType string, ptr bool, name string) string {
	if recvType == "" {
		return pkgPath + "." + name
	}
	p := ""
	if ptr {
		p = "*"
	}
	return "(" + p + recvType + ")." + name
}

// allFunctions enumerates functions (incl. methods and closures) of an ssa package.
func allFunctions(pkg *ssa.Package) []*ssa.Function {
	var out []*ssa.Function
	seen := map[*ssa.Function]bool{}
	var add func(f *ssa.Function)
	add = func(f *ssa.Function) {
		if f == nil || seen[f] {
			return
		}
		seen[f] = true
		out = append(out, f)
		for _, a := range f.AnonFuncs {
			add(a)
		}
	}
	for _, m := range pkg.Members {
		switch m := m.(type) {
		case *ssa.Function:
			add(m)
		case *ssa.Type:
			t := m.Type()
			ms := pkg.Prog.MethodSets.MethodSet(t)
			for i := 0; i < ms.Len(); i++ {
				add(pkg.Prog.MethodValue(ms.At(i)))
			}
			pt := types.NewPointer(t)
			ms = pkg.Prog.MethodSets.MethodSet(pt)
			for i := 0; i < ms.Len(); i++ {
				add(pkg.Prog.MethodValue(ms.At(i)))
			}
		}
	}
	return out
}

// Bind attaches contracts to ssa functions of loaded packages.
func (w *World) Bind() []string {
	var missing []string
	index := map[string]*ssa.Function{}
	for _, sp := range w.SSAPkgs {
		for _, f := range allFunctions(sp) {
			if f.Synthetic != "" && !strings.HasPrefix(f.Synthetic, "package init") {
				// wrappers: skip (methods promoted etc.)
				if f.Blocks == nil {
					continue
				}
			}
			if f.Pkg == nil && f.Parent() == nil {
				continue
			}
			index[fnFullKey(f)] = f
		}
	}
	for key, c := range w.Contracts {
		if c.Extern {
			continue
		}
		if _, ok := w.SSAPkgs[c.Pkg]; !ok {
			continue // package not loaded in this run
		}
		f := index[key]
		if f == nil {
			missing = append(missing, key)
			continue
		}
		c.Fn = f
		w.ByFn[f] = c
	}
	sort.Strings(missing)
	return missing
}
