package main

// Loop handling (invariant cut, unrolling), obligations (check), frame checks, globals.

import (
	"fmt"
	"go/ast"
	"go/token"
	"go/types"
	"strconv"
	"strings"

	"golang.org/x/tools/go/ssa"
)

func identName(e ast.Expr) string {
	if id, ok := e.(*ast.Ident); ok {
		return id.Name
	}
	return ""
}

// ---------- obligations ----------

func (x *Exec) check(st *State, goal *Term, kind, clause, site, text string) {
	if x.discover {
		return
	}
	if goal.isTrue() {
		x.trivial++
		return
	}
	name := x.curFn + "#" + kind + ":" + clause
	if kind == "safety" || kind == "overflow" || kind == "frame" || kind == "precondition" {
		name += "@" + site
	}
	o := &Oblig{Name: name, Fn: x.curFn, Kind: kind, Clause: clause, Site: site, Text: text, Goal: goal, Bounded: st.bounded}
	v := Unknown
	if !hasQuant(goal) {
		// quantified goals go straight to the raced solvers: in the incremental session they
		// routinely run into its watchdog
		v = x.sess.CheckWith(Not(goal))
	}
	if v == Unsat {
		o.Done = true
		o.Res = SolveResult{V: Unsat, Solver: "z3-new(session)"}
		x.sessDis++
	} else {
		o.PC = st.pc
		o.Inputs = x.inputs
		o.X = x
		if kind == "postcondition" {
			o.Outputs = x.outputs
		}
	}
	x.obligs = append(x.obligs, o)
	// continue under the assumption that the check holds
	x.assume(st, goal, "checked:"+kind)
}

// ---------- frame ----------

type modTarget struct {
	whole bool // allof(x.f): the field of every object of x's type
	all  bool
	key  string // full heap key (root|path+leaf) ; "" with all
	base *Term
	lo   *Term // element range (nil: whole / object leaf)
	hi   *Term
	root string // for whole-object targets: prefix match root|path
	sort string // leaf sort of key
	keys []mapKey
}

func (x *Exec) frameCheck(st *State, l *Loc, pos token.Pos) {
	if x.discover || len(st.frames) == 0 {
		return
	}
	top := st.frames[0]
	if top.con == nil || top.con.has("noframe") {
		return
	}
	if strings.HasPrefix(l.Root, "B|") || l.Root == "A|" {
		return
	}
	if st.fresh[l.Base.s] {
		return
	}
	mods := x.topMods
	var alts []*Term
	alts = append(alts, Ge(l.Base, x.allocBase0)) // allocated during this activation
	for _, lf := range flatten(l.T) {
		key := l.Root + "|" + l.Path + lf.Path
		var leafAlts []*Term
		for _, m := range mods {
			if m.all {
				return
			}
			if m.key != "" && m.key != key {
				continue
			}
			if m.key == "" && !strings.HasPrefix(key, m.root) {
				continue
			}
			if m.whole {
				leafAlts = append(leafAlts, TTrue)
				continue
			}
			c := Eq(l.Base, m.base)
			if m.lo != nil {
				if l.Idx == nil {
					continue
				}
				c = And(c, Le(m.lo, l.Idx), Lt(l.Idx, m.hi))
			}
			leafAlts = append(leafAlts, c)
		}
		g := Or(append(leafAlts, alts...)...)
		x.check(st, g, "frame", "store-within-modifies", x.site(pos), "store to "+key+" is permitted by modifies")
	}
}

// ---------- globals ----------

func (x *Exec) initGlobal(st *State, l *Loc) {
	if l.Path != "" {
		return
	}
	key := "ginit:" + l.Root
	if st.assumedR[key] {
		return
	}
	st.assumedR[key] = true
	if it, ok := l.T.Underlying().(*types.Interface); ok && it.NumMethods() == 1 && it.Method(0).Name() == "Error" {
		// A3: package-level error variables are initialised once to distinct non-nil values
		v := x.load(st, l, nil)
		id := int64(hash32(l.Root)&0x3fffffff) + 1
		x.assume(st, And(Eq(v.Tag, IntLit(x.typeID(types.NewPointer(types.Typ[types.Int])))), Eq(v.Ptr, IntLit(-id))), "sentinel-error "+l.Root)
		x.note("A3 sentinel error variable treated as constant: " + strings.TrimPrefix(l.Root, "G|"))
	}
}

// ---------- loops ----------

func (x *Exec) conOf(fr *Frame) *Contract {
	if fr.con != nil {
		return fr.con
	}
	return x.w.ByFn[fr.fn]
}

func (x *Exec) enterLoopHeader(st *State, fr *Frame, from, to *ssa.BasicBlock, ord int, li *loopInfo, ret retFn) {
	h := to.Index
	con := x.conOf(fr)
	var invs, decs []*Clause
	unroll := -1
	cutFlag := false
	if con != nil {
		invs = con.of("invariant", ord)
		decs = con.of("decreases", ord)
		for _, c := range con.of("unroll", ord) {
			n, err := strconv.Atoi(strings.TrimSpace(c.Text))
			if err != nil {
				fatalf("%s:%d: bad unroll bound", c.File, c.Line)
			}
			unroll = n
		}
		if len(con.of("havoc", ord)) > 0 {
			cutFlag = true
		}
		if v, ok := con.Flags["unrollall"]; ok && unroll < 0 && len(invs) == 0 {
			n, _ := strconv.Atoi(v)
			unroll = n
		}
	}
	isBack := from != nil && li.body[h][from.Index]
	if fr.depth > 0 && unroll >= 0 {
		// an inlined callee that offers both: callers unroll it, its own verification uses the invariant
		invs, decs, cutFlag = nil, nil, false
	}
	cut := len(invs) > 0 || cutFlag

	if cut {
		n := x.evalPhis(st, fr, from, to)
		if !isBack {
			for _, inv := range invs {
				t := x.evalClause(st, fr, con, inv, nil)
				x.check(st, t, "invariant-entry", fmt.Sprintf("loop%d.%s", ord, inv.ID), x.site(to.Instrs[0].Pos()), inv.Text)
			}
			for i, ai := range x.autoInvariants(st, fr, to, li) {
				x.check(st, ai, "invariant-entry", fmt.Sprintf("loop%d.auto#%d", ord, i+1), x.site(to.Instrs[0].Pos()), "counter stays at or above its initial value")
			}
			x.havocLoop(st, fr, to, li)
			for _, ai := range x.autoInvariants(st, fr, to, li) {
				x.assume(st, ai, "auto invariant")
			}
			for _, inv := range invs {
				x.assume(st, x.evalClause(st, fr, con, inv, nil), "invariant "+inv.ID)
			}
			for i, d := range decs {
				fr.lets[fmt.Sprintf("$dec%d.%d", h, i)] = x.evalClauseVal(st, fr, con, d, nil)
			}
			fr.inLoop[h] = true
			x.runFrom(st, fr, to, n, ret)
			return
		}
		for i, ai := range x.autoInvariants(st, fr, to, li) {
			x.check(st, ai, "invariant-preserved", fmt.Sprintf("loop%d.auto#%d", ord, i+1), x.site(to.Instrs[0].Pos()), "counter stays at or above its initial value")
		}
		for _, inv := range invs {
			t := x.evalClause(st, fr, con, inv, nil)
			x.check(st, t, "invariant-preserved", fmt.Sprintf("loop%d.%s", ord, inv.ID), x.site(to.Instrs[0].Pos()), inv.Text)
		}
		for i, d := range decs {
			old := fr.lets[fmt.Sprintf("$dec%d.%d", h, i)]
			nv := x.evalClauseVal(st, fr, con, d, nil)
			if old != nil {
				x.check(st, And(Ge(old.T, IntLit(0)), Lt(nv.T, old.T)), "decreases", fmt.Sprintf("loop%d.%s", ord, d.ID), x.site(to.Instrs[0].Pos()), d.Text)
			}
		}
		x.endPath(st, "loop back-edge (cut)")
		return
	}

	// unrolling
	auto := unroll < 0
	limit := unroll
	if auto {
		limit = 64
	}
	if !isBack {
		fr.iter[h] = 0
		delete(fr.inLoop, h)
	} else {
		if fr.inLoop[h] {
			// converted to a cut loop with invariant true (+ automatically derived counter bounds)
			x.evalPhis(st, fr, from, to)
			for i, ai := range x.autoInvariants(st, fr, to, li) {
				x.check(st, ai, "invariant-preserved", fmt.Sprintf("loop%d.auto#%d", ord, i+1), x.site(to.Instrs[0].Pos()), "counter stays within its automatically derived bounds")
			}
			x.endPath(st, "loop back-edge (cut, invariant true)")
			return
		}
		fr.iter[h]++
		if fr.iter[h] > limit {
			if auto {
				x.aborted = fmt.Sprintf("loop %d of %s: auto-unrolling exceeded %d iterations; add an invariant or an unroll bound", ord, fr.fn, limit)
				return
			}
			// unwinding assumption: paths needing more iterations are not explored
			x.boundedCut(st, fmt.Sprintf("loop %d of %s unrolled %d times", ord, fnRelName(fr.fn), limit))
			return
		}
	}
	n := x.evalPhis(st, fr, from, to)
	fr.auto[h] = auto
	x.runFrom(st, fr, to, n, ret)
}

type autoMark struct {
	fr *Frame
	h  int
}

// boundedCut ends a path because a stated bound was reached.
func (x *Exec) boundedCut(st *State, why string) {
	x.boundedNotes[why]++
	x.endPath(st, "bounded: "+why)
}

// havocLoop forgets everything the loop may modify: header phis and heap keys written in the body.
func (x *Exec) havocLoop(st *State, fr *Frame, to *ssa.BasicBlock, li *loopInfo) {
	for _, in := range to.Instrs {
		phi, ok := in.(*ssa.Phi)
		if !ok {
			break
		}
		// only phis that actually change in the loop need havoc; all of them is sound
		v := x.freshTyped(st, "loop_"+phi.Comment, phi.Type())
		fr.regs[phi] = v
		if phi.Comment != "" {
			fr.names[phi.Comment] = v
		}
	}
	// effect ghosts (call counters, last arguments) of everything the loop body may call
	canonNames := map[string]bool{}
	for name := range x.loopCallNames(fr, to.Index, li) {
		canonNames[canonCall(name)] = true
	}
	for name := range canonNames {
		k := "ncalls:" + name
		old := st.ghost[k]
		if old == nil {
			old = IntLit(0)
		}
		f := x.freshConst(st, "ncalls", SInt)
		x.assume(st, app(SBool, ">=", f, old), "call counter only grows")
		st.ghost[k] = f
		for i := 0; i < 6; i++ {
			// placeholders get the sort the recorded value will have (string / bool arguments and
			// results of statically known callees), integer / tag / identity sort otherwise
			lk := fmt.Sprintf("lastarg:%s:%d", name, i)
			if cur, ok := st.ghost[lk]; ok {
				st.ghost[lk] = x.freshConst(st, "lastarg", cur.sort)
			} else if s, ok := x.loopSortHint["a:"+name+":"+fmt.Sprint(i)]; ok {
				st.ghost[lk] = x.freshConst(st, "lastarg", s)
			} else {
				st.ghost[lk] = x.freshConst(st, "lastarg", SInt)
			}
			rk := fmt.Sprintf("lastret:%s:%d", name, i)
			if cur, ok := st.ghost[rk]; ok {
				st.ghost[rk] = x.freshConst(st, "lastret", cur.sort)
			} else if s, ok := x.loopSortHint["r:"+name+":"+fmt.Sprint(i)]; ok {
				st.ghost[rk] = x.freshConst(st, "lastret", s)
			} else if i < 3 {
				// a result recorded only inside the loop must be one value per iteration at the head
				// (an invariant relates it to the loop's variables)
				st.ghost[rk] = x.freshConst(st, "lastret", SInt)
			}
		}
	}
	x.loopPrecise = map[string][]preciseWrite{}
	all, keys := x.loopWrites(st, fr, to.Index, li)
	if all {
		x.havocAll(st, "loop body of "+fnRelName(fr.fn))
		return
	}
	for k, srt := range keys {
		x.havocKey(st, k, srt)
	}
	for k, ws := range x.loopPrecise {
		if _, whole := keys[k]; whole {
			continue
		}
		for _, w := range ws {
			arr := x.heapGet(st, k, w.sort)
			_, vs := arrSorts(arr.sort)
			st.heap[k] = Store(arr, w.base, x.freshConst(st, "hvl", vs))
		}
	}
}

// loopCallNames collects the ghost names under which calls made inside the natural loop of
// header h (directly or through inlined callees) are counted.
func (x *Exec) loopCallNames(fr *Frame, h int, li *loopInfo) map[string]bool {
	out := map[string]bool{}
	var scan func(fn *ssa.Function, blocks map[int]bool, depth int)
	scan = func(fn *ssa.Function, blocks map[int]bool, depth int) {
		for _, b := range fn.Blocks {
			if blocks != nil && !blocks[b.Index] {
				continue
			}
			for _, in := range b.Instrs {
				ci, ok := in.(ssa.CallInstruction)
				if !ok {
					continue
				}
				c := ci.Common()
				if c.IsInvoke() {
					out["("+c.Value.Type().String()+")."+c.Method.Name()] = true
					if c.Method.Name() == "WriteAt" {
						out["file.WriteAt"] = true
					}
					continue
				}
				switch f := c.Value.(type) {
				case *ssa.Function:
					out[externName(f)] = true
					out[fnRelName(f)] = true
					if x.loopSortHint == nil {
						x.loopSortHint = map[string]string{}
					}
					sortOf := func(t types.Type) string {
						if b, ok := t.Underlying().(*types.Basic); ok {
							switch {
							case b.Info()&types.IsString != 0:
								return SStr
							case b.Info()&types.IsBoolean != 0:
								return SBool
							}
						}
						return ""
					}
					for _, nm := range []string{canonCall(externName(f)), canonCall(fnRelName(f))} {
						for i, a := range c.Args {
							if s := sortOf(a.Type()); s != "" {
								x.loopSortHint["a:"+nm+":"+fmt.Sprint(i)] = s
							}
						}
						res := f.Signature.Results()
						for i := 0; i < res.Len(); i++ {
							if s := sortOf(res.At(i).Type()); s != "" {
								x.loopSortHint["r:"+nm+":"+fmt.Sprint(i)] = s
							}
						}
					}
					switch externName(f) {
					case "(*os.File).WriteAt":
						out["file.WriteAt"] = true
					case "(*os.File).ReadAt":
						out["file.ReadAt"] = true
					}
					if cc := x.contractFor(f); cc != nil {
						out[cc.Func] = true
					} else if f.Blocks != nil && inModule(f) && depth < 3 {
						scan(f, nil, depth+1)
					}
				case *ssa.MakeClosure:
					if cf, ok := f.Fn.(*ssa.Function); ok && depth < 3 {
						scan(cf, nil, depth+1)
					}
				case *ssa.Builtin:
				default:
					out["funcvalue"] = true
				}
			}
		}
	}
	scan(fr.fn, li.body[h], 0)
	return out
}

type preciseWrite struct {
	base *Term
	sort string
}

// chainStart follows field and array-element address computations back to the value the
// address is derived from (a pointer, or the slice whose element is addressed).
func chainStart(addr ssa.Value) ssa.Value {
	for {
		switch a := addr.(type) {
		case *ssa.FieldAddr:
			addr = a.X
		case *ssa.IndexAddr:
			if _, isSlice := a.X.Type().Underlying().(*types.Slice); isSlice {
				return a.X
			}
			addr = a.X
		default:
			return addr
		}
	}
}

// loopWrites computes the heap keys stored to inside the natural loop of header h.
func (x *Exec) loopWrites(st *State, fr *Frame, h int, li *loopInfo) (all bool, keys map[string]string) {
	keys = map[string]string{}
	body := li.body[h]
	var scanFn func(fn *ssa.Function, blocks map[int]bool, outer *Frame, depth int) bool
	scanFn = func(fn *ssa.Function, blocks map[int]bool, outer *Frame, depth int) bool {
		for _, b := range fn.Blocks {
			if blocks != nil && !blocks[b.Index] {
				continue
			}
			for _, in := range b.Instrs {
				switch in := in.(type) {
				case *ssa.Store:
					root, path, ok := x.staticLoc(in.Addr, outer, blocks)
					if !ok {
						return true
					}
					if root == "local" {
						continue
					}
					// a store through an address that is fixed for the whole loop (its chain starts
					// at a value defined before the loop) only touches that one object
					var base *Term
					if outer != nil && blocks != nil {
						start := chainStart(in.Addr)
						instr, isInstr := start.(ssa.Instruction)
						if !isInstr || instr.Block() == nil || !blocks[instr.Block().Index] {
							if v, has := outer.regs[start]; has {
								switch v.K {
								case kPtr:
									base = v.L.Base
								case kSlice:
									base = v.Arr
								}
							}
						} else if al, isAlloc := start.(*ssa.Alloc); isAlloc && !al.Heap {
							continue // a non-escaping variable allocated afresh in every iteration
						}
					}
					for _, lf := range flatten(in.Val.Type()) {
						k := root + "|" + path + lf.Path
						if base != nil {
							x.loopPrecise[k] = append(x.loopPrecise[k], preciseWrite{base: base, sort: lf.Sort})
						} else {
							keys[k] = lf.Sort
						}
					}
				case *ssa.MapUpdate:
					mt := in.Map.Type().Underlying().(*types.Map)
					for _, k := range x.mapKeys(mt) {
						keys[k.key] = k.sort
					}
				case *ssa.Go, *ssa.Select, *ssa.Send:
					return true
				case ssa.CallInstruction:
					c := in.Common()
					if c.IsInvoke() {
						tn := c.Value.Type().String()
						if tn == "github.com/chrislusf/seaweedfs/weed/storage/backend.BackendStorageFile" || tn == "io.ReaderAt" || tn == "io.WriterAt" {
							// built-in file model: what each method writes
							switch c.Method.Name() {
							case "ReadAt":
								keys["E|uint8|"] = SInt
								continue
							case "WriteAt":
								keys["E|$filebytes|"] = SInt
								keys[fileSizeKey] = SInt
								continue
							case "GetStat":
								continue
							}
						}
						if ec := x.externFor(c); ec != nil && len(ec.of("modifies", -1)) == 0 {
							continue
						}
						return true
					}
					switch f := c.Value.(type) {
					case *ssa.Builtin:
						switch f.Name() {
						case "append", "copy":
							// element writes to the destination's element type
							et := c.Args[0].Type().Underlying().(*types.Slice).Elem()
							for _, lf := range flatten(et) {
								keys["E|"+typeKey(et)+"|"+lf.Path] = lf.Sort
							}
						case "delete":
							mt := c.Args[0].Type().Underlying().(*types.Map)
							for _, k := range x.mapKeys(mt) {
								keys[k.key] = k.sort
							}
						}
					case *ssa.Function:
						if x.isNoEffectModel(f) {
							continue
						}
						switch f.String() {
						case "(*os.File).ReadAt":
							keys["E|uint8|"] = SInt
							continue
						case "(*os.File).WriteAt":
							keys["E|$filebytes|"] = SInt
							keys[fileSizeKey] = SInt
							continue
						}
						if cc := x.contractFor(f); cc != nil {
							if len(cc.of("modifies", -1)) == 0 {
								continue
							}
							if ks, ok := staticModKeys(f, cc); ok {
								for k, s := range ks {
									keys[k] = s
								}
								continue
							}
							return true
						}
						if f.Blocks == nil || depth > 3 {
							if allScalarArgs(c) {
								continue
							}
							return true
						}
						if scanFn(f, nil, nil, depth+1) {
							return true
						}
					case *ssa.MakeClosure:
						if scanFn(f.Fn.(*ssa.Function), nil, nil, depth+1) {
							return true
						}
					default:
						return true
					}
				}
			}
		}
		return false
	}
	all = scanFn(fr.fn, body, fr, 0)
	return
}

func allScalarArgs(c *ssa.CallCommon) bool {
	for _, a := range c.Args {
		switch a.Type().Underlying().(type) {
		case *types.Basic:
		default:
			return false
		}
	}
	return true
}

// staticLoc derives the heap key prefix written through addr. outer (if non-nil) supplies
// runtime values for addresses defined outside the scanned region.
func (x *Exec) staticLoc(addr ssa.Value, outer *Frame, blocks map[int]bool) (root, path string, ok bool) {
	switch a := addr.(type) {
	case *ssa.FieldAddr:
		r, p, ok := x.staticLoc(a.X, outer, blocks)
		if !ok {
			return "", "", false
		}
		if r == "local" {
			return r, "", true
		}
		stt := a.X.Type().Underlying().(*types.Pointer).Elem().Underlying().(*types.Struct)
		return r, p + "." + stt.Field(a.Field).Name(), true
	case *ssa.IndexAddr:
		switch xt := a.X.Type().Underlying().(type) {
		case *types.Slice:
			return "E|" + typeKey(xt.Elem()), "", true
		case *types.Pointer:
			arr := xt.Elem().Underlying().(*types.Array)
			if al, isAlloc := a.X.(*ssa.Alloc); isAlloc {
				_ = al
				return "E|" + typeKey(arr.Elem()), "", true
			}
			r, p, ok := x.staticLoc(a.X, outer, blocks)
			if !ok {
				return "", "", false
			}
			if c, isC := a.Index.(*ssa.Const); isC {
				return r, p + fmt.Sprintf("[%d]", c.Int64()), true
			}
			return "", "", false
		}
		return "", "", false
	case *ssa.Alloc:
		if outer != nil && blocks != nil && !blocks[a.Block().Index] {
			if v, has := outer.regs[a]; has && v.K == kPtr {
				return v.L.Root, v.L.Path, true
			}
		}
		if outer == nil {
			// allocation inside a scanned callee: fresh object, invisible to the caller
			return "local", "", true
		}
		return "F|" + typeKey(a.Type().(*types.Pointer).Elem()), "", true
	case *ssa.Global:
		return "G|" + a.Pkg.Pkg.Path() + "." + a.Name(), "", true
	}
	if outer != nil {
		if v, has := outer.regs[addr]; has && v.K == kPtr {
			if in, isInstr := addr.(ssa.Instruction); !isInstr || blocks == nil || !blocks[in.Block().Index] {
				return v.L.Root, v.L.Path, true
			}
		}
	}
	if outer == nil {
		// inside a callee we cannot see the runtime location of parameters
		if _, isParam := addr.(*ssa.Parameter); isParam {
			return "", "", false
		}
		if _, isFV := addr.(*ssa.FreeVar); isFV {
			return "", "", false
		}
	}
	if pt, isPtr := addr.Type().Underlying().(*types.Pointer); isPtr {
		return "F|" + typeKey(pt.Elem()), "", true
	}
	return "", "", false
}

func isConst(v ssa.Value) bool { _, ok := v.(*ssa.Const); return ok }

// autoInvariants derives, for every integer phi of a loop header that starts at a constant and
// is only ever increased by a positive constant inside the loop (the hidden index of a range
// loop, a plain i++ counter), the fact "phi >= initial value". The fact is checked like a user
// invariant (on entry and at every back edge), so it is never an unchecked assumption.
func (x *Exec) autoInvariants(st *State, fr *Frame, header *ssa.BasicBlock, li *loopInfo) []*Term {
	var out []*Term
	body := li.body[header.Index]
	for _, in := range header.Instrs {
		phi, ok := in.(*ssa.Phi)
		if !ok {
			break
		}
		if _, isInt := isIntType(phi.Type()); !isInt {
			continue
		}
		var init *ssa.Const
		good := true
		for i, e := range phi.Edges {
			pred := header.Preds[i]
			if !body[pred.Index] {
				c, isC := e.(*ssa.Const)
				if !isC || (init != nil && init.Int64() != c.Int64()) {
					good = false
					break
				}
				init = c
				continue
			}
			b, isB := e.(*ssa.BinOp)
			if !isB || b.Op != token.ADD {
				good = false
				break
			}
			k, isK := b.Y.(*ssa.Const)
			if b.X != ssa.Value(phi) || !isK || k.Int64() <= 0 {
				good = false
				break
			}
		}
		if !good || init == nil {
			continue
		}
		cur, has := fr.regs[phi]
		if !has || cur.K != kScalar {
			continue
		}
		raw := *cur.T
		raw.lo, raw.hi = nil, nil
		if cur.T.lit != nil {
			out = append(out, Ge(cur.T, IntLit(init.Int64())))
		} else {
			out = append(out, app(SBool, ">=", &raw, IntLit(init.Int64())))
		}
		// range-index shape: the header leaves the loop unless phi+k < bound, with bound fixed
		// outside the loop: then phi+k <= bound holds at every arrival at the header
		if iff, isIf := header.Instrs[len(header.Instrs)-1].(*ssa.If); isIf {
			if c, isB := iff.Cond.(*ssa.BinOp); isB && c.Op == token.LSS {
				if inc, isInc := c.X.(*ssa.BinOp); isInc && inc.Op == token.ADD && inc.X == ssa.Value(phi) {
					if k, isK := inc.Y.(*ssa.Const); isK && k.Int64() > 0 {
						outside := true
						if yi, isInstr := c.Y.(ssa.Instruction); isInstr && yi.Block() != nil && body[yi.Block().Index] {
							outside = false
						}
						if bv, has := fr.regs[c.Y]; outside && (has || isConst(c.Y)) {
							if !has {
								bv = x.val(st, fr, c.Y)
							}
							if bv.K == kScalar && bv.T.sort == SInt {
								braw := *bv.T
								braw.lo, braw.hi = nil, nil
								var l *Term = Add(&raw, IntLit(k.Int64()))
								if cur.T.lit != nil {
									l = Add(cur.T, IntLit(k.Int64()))
								}
								out = append(out, app(SBool, "<=", l, &braw))
							}
						}
					}
				}
			}
		}
	}
	return out
}
