package main

// Solver plumbing: one incremental session for exploration (feasibility / range
// simplification), and a racing discharger for final obligations.

import (
	"bufio"
	"bytes"
	"context"
	"fmt"
	"io"
	"os"
	"os/exec"
	"strings"
	"sync"
	"time"
)

type Verdict int

const (
	Unsat Verdict = iota
	Sat
	Unknown
)

func (v Verdict) String() string { return [...]string{"unsat", "sat", "unknown"}[v] }

// ---------- incremental session ----------

type Session struct {
	cmd    *exec.Cmd
	in     io.WriteCloser
	out    *bufio.Reader
	lines  chan string
	depth  int
	nquery int
	dead   bool
	log    *os.File
	total  time.Duration
	frames [][]string // mirror of what the solver holds, per push level (for restarts)
	restarts int
	wedged     int
	muted      bool
	mutedAbove int
}

var progressHook func(s *Session)

func solverPath(name string) string {
	switch name {
	case "z3":
		return "/usr/bin/z3"
	case "z3-new":
		if p, err := exec.LookPath("z3-new"); err == nil {
			return p
		}
		return "/usr/local/bin/z3-new"
	case "cvc5":
		return "/usr/bin/cvc5"
	}
	return name
}

func NewSession() *Session {
	s := &Session{frames: [][]string{nil}}
	if p := os.Getenv("GCV_SESSION_LOG"); p != "" {
		s.log, _ = os.Create(p)
	}
	s.start()
	return s
}

func (s *Session) start() {
	cmd := exec.Command(solverPath("z3-new"), "-in")
	in, _ := cmd.StdinPipe()
	outp, _ := cmd.StdoutPipe()
	cmd.Stderr = os.Stderr
	if err := cmd.Start(); err != nil {
		fatalf("cannot start z3-new: %v", err)
	}
	s.cmd, s.in, s.out = cmd, in, bufio.NewReader(outp)
	s.dead = false
	lines := make(chan string, 16)
	s.lines = lines
	rd := s.out
	go func() {
		for {
			l, err := rd.ReadString('\n')
			if err != nil {
				close(lines)
				return
			}
			lines <- l
		}
	}()
	s.raw(fmt.Sprintf("(set-option :timeout %d)\n", envInt("GCV_SESSION_TIMEOUT_MS", 250)))
	s.raw(prelude)
}

func (s *Session) raw(txt string) {
	if s.dead {
		return
	}
	if s.log != nil {
		s.log.WriteString(txt)
	}
	if _, err := io.WriteString(s.in, txt); err != nil {
		s.dead = true
	}
}

// restart kills a wedged solver and rebuilds its assertion stack from the mirror.
func (s *Session) restart() {
	s.restarts++
	s.in.Close()
	s.cmd.Process.Kill()
	s.cmd.Wait()
	s.start()
	for i, f := range s.frames {
		if i > 0 {
			s.raw("(push 1)\n")
		}
		for _, c := range f {
			s.raw(c)
		}
	}
}

func (s *Session) send(txt string) {
	s.frames[len(s.frames)-1] = append(s.frames[len(s.frames)-1], txt)
	s.raw(txt)
}

func (s *Session) Close() {
	if s.cmd != nil {
		s.in.Close()
		s.cmd.Process.Kill()
		s.cmd.Wait()
	}
}

func (s *Session) Push() { s.raw("(push 1)\n"); s.frames = append(s.frames, nil); s.depth++ }
func (s *Session) Pop() {
	s.raw("(pop 1)\n")
	if len(s.frames) > 1 {
		s.frames = s.frames[:len(s.frames)-1]
	}
	s.depth--
	if s.muted && len(s.frames)-1 < s.mutedAbove {
		s.muted = false
		s.wedged = 0
	}
}

func (s *Session) Add(e PCEntry) { s.send(e.SMT() + "\n") }

// CheckWith: is PC ∧ extra satisfiable?
func (s *Session) CheckWith(extra *Term) Verdict {
	if s.dead || s.muted {
		return Unknown
	}
	s.nquery++
	if s.nquery%500 == 0 && progressHook != nil {
		progressHook(s)
	}
	t0 := time.Now()
	s.raw("(push 1)\n(assert " + extra.s + ")\n(check-sat)\n(pop 1)\n")
	var line string
	ok := true
	select {
	case line, ok = <-s.lines:
	case <-time.After(time.Duration(envInt("GCV_SESSION_TIMEOUT_MS", 250)*4+1500) * time.Millisecond):
		// the solver ignored its own timeout (seen with string constraints and wide modular
		// arithmetic): start over. If the rebuilt assertion stack wedges it again and again, stop
		// asking until the stack has shrunk below the depth at which it went wrong (answering
		// "unknown" is always sound: it only costs precision).
		s.wedged++
		if s.wedged >= 2 {
			s.mutedAbove = len(s.frames) - 1
			s.muted = true
			if os.Getenv("GCV_TRACE") != "" {
				fmt.Fprintf(os.Stderr, "session muted above depth %d after repeated watchdog timeouts\n", s.mutedAbove)
			}
		}
		s.restart()
		s.total += time.Since(t0)
		return Unknown
	}
	s.wedged = 0
	s.total += time.Since(t0)
	if d := time.Since(t0); d > 300*time.Millisecond && os.Getenv("GCV_TRACE") != "" {
		h := extra.s
		if len(h) > 160 {
			h = h[:160]
		}
		fmt.Fprintf(os.Stderr, "slow session query #%d %.2fs -> %s: %s\n", s.nquery, d.Seconds(), strings.TrimSpace(line), h)
	}
	if !ok {
		s.restart()
		return Unknown
	}
	line = strings.TrimSpace(line)
	switch line {
	case "sat":
		return Sat
	case "unsat":
		return Unsat
	case "unknown", "timeout":
		return Unknown
	}
	if strings.HasPrefix(line, "(error") {
		fatalf("session solver error: %s\n  on: %s", line, extra.s)
	}
	return Unknown
}

// ---------- path condition entries ----------

type PCEntry struct {
	Kind  int // 0 declare-const, 1 assert, 2 declare-fun, 3 raw
	Name  string
	Sort  string
	Args  []string
	T     *Term
	Label string // provenance (for evidence / debugging)
}

func (e PCEntry) SMT() string {
	switch e.Kind {
	case 0:
		return "(declare-const " + e.Name + " " + e.Sort + ")"
	case 1:
		return "(assert " + e.T.s + ")"
	case 2:
		return "(declare-fun " + e.Name + " (" + strings.Join(e.Args, " ") + ") " + e.Sort + ")"
	}
	return e.Name
}

// PC is a persistent (shared-prefix) list.
type PC struct {
	e    PCEntry
	prev *PC
	n    int
}

func (p *PC) Push(e PCEntry) *PC {
	n := 1
	if p != nil {
		n = p.n + 1
	}
	return &PC{e: e, prev: p, n: n}
}

func (p *PC) Entries() []PCEntry {
	if p == nil {
		return nil
	}
	out := make([]PCEntry, p.n)
	for c := p; c != nil; c = c.prev {
		out[c.n-1] = c.e
	}
	return out
}

// prelude: global declarations shared by every query.
var prelude = ``

// ---------- obligation discharge ----------

type SolveResult struct {
	V       Verdict
	Solver  string
	Secs    float64
	Model   string
	Reason  string
	Tried   []string
	Escal   bool
}

func scriptFor(solver string, body string, timeoutMs int, wantModel bool) string {
	var b strings.Builder
	switch solver {
	case "cvc5":
		b.WriteString("(set-option :produce-models true)\n(set-logic ALL)\n")
	default:
		fmt.Fprintf(&b, "(set-option :timeout %d)\n", timeoutMs)
	}
	b.WriteString(prelude)
	b.WriteString(body)
	b.WriteString("(check-sat)\n")
	if wantModel {
		b.WriteString("(get-model)\n")
	}
	return b.String()
}

func runSolver(ctx context.Context, solver, script string, timeoutMs int) (Verdict, string, string) {
	var args []string
	switch solver {
	case "cvc5":
		args = []string{"--lang", "smt2", "--strings-exp", fmt.Sprintf("--tlimit=%d", timeoutMs), "-"}
	default:
		args = []string{"-in"}
	}
	cctx, cancel := context.WithTimeout(ctx, time.Duration(timeoutMs+2000)*time.Millisecond)
	defer cancel()
	cmd := exec.CommandContext(cctx, solverPath(solver), args...)
	cmd.Stdin = strings.NewReader(script)
	var out, errb bytes.Buffer
	cmd.Stdout = &out
	cmd.Stderr = &errb
	cmd.Run()
	txt := out.String()
	first := txt
	rest := ""
	if i := strings.IndexByte(txt, '\n'); i >= 0 {
		first, rest = txt[:i], txt[i+1:]
	}
	first = strings.TrimSpace(first)
	switch first {
	case "unsat":
		return Unsat, "", ""
	case "sat":
		return Sat, rest, ""
	}
	reason := first
	if reason == "" {
		reason = "no answer (killed or crashed): " + strings.TrimSpace(errb.String())
	}
	if len(reason) > 400 {
		reason = reason[:400]
	}
	return Unknown, "", reason
}

var solverNames = []string{"z3-new", "z3", "cvc5"}

// Discharge decides PC ∧ ¬goal. body is the full SMT text up to (but excluding) check-sat.
func Discharge(body string, timeoutMs int, hasQuant bool) SolveResult {
	return DischargeCtx(context.Background(), body, timeoutMs)
}

func DischargeCtx(parent context.Context, body string, timeoutMs int) SolveResult {
	start := time.Now()
	// first a fast attempt with z3-new alone
	fast := 2500
	if timeoutMs < fast {
		fast = timeoutMs
	}
	ctx, cancel := context.WithCancel(parent)
	defer cancel()
	v, model, reason := runSolver(ctx, "z3-new", scriptFor("z3-new", body, fast, true), fast)
	if v != Unknown {
		return SolveResult{V: v, Solver: "z3-new", Secs: time.Since(start).Seconds(), Model: model, Tried: []string{"z3-new"}}
	}
	// race all three
	type r struct {
		v      Verdict
		solver string
		model  string
		reason string
	}
	ch := make(chan r, 3)
	for _, sn := range solverNames {
		sn := sn
		go func() {
			v, m, rs := runSolver(ctx, sn, scriptFor(sn, body, timeoutMs, true), timeoutMs)
			ch <- r{v, sn, m, rs}
		}()
	}
	res := SolveResult{V: Unknown, Tried: solverNames, Escal: true, Reason: "z3-new(fast): " + reason}
	for i := 0; i < 3; i++ {
		x := <-ch
		if x.v != Unknown {
			res.V, res.Solver, res.Model = x.v, x.solver, x.model
			res.Reason = ""
			break
		}
		res.Reason += "; " + x.solver + ": " + x.reason
	}
	res.Secs = time.Since(start).Seconds()
	return res
}

// ---------- small parallel runner ----------

type job struct {
	idx int
	fn  func()
}

func parallel(n int, jobs []func()) {
	var wg sync.WaitGroup
	ch := make(chan func())
	for i := 0; i < n; i++ {
		wg.Add(1)
		go func() {
			defer wg.Done()
			for f := range ch {
				f()
			}
		}()
	}
	for _, j := range jobs {
		ch <- j
	}
	close(ch)
	wg.Wait()
}

func fatalf(format string, a ...interface{}) {
	fmt.Fprintf(os.Stderr, "gcv: "+format+"\n", a...)
	os.Exit(3)
}
