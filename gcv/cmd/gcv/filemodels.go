package main

// Ghost model of files: a file object (an *os.File or a value behind the volume backend
// interface) owns a byte sequence kept in the heap under the pseudo-fields $content (Array Int
// Int) and $size. ReadAt copies from it, WriteAt writes into it; short reads/writes and errors
// are nondeterministic the way the io.ReaderAt / io.WriterAt contracts allow:
//   ReadAt : 0 <= n <= len(p); err == nil => n == len(p); p[0:n] = content[off:off+n];
//            bytes are only read below the file size
//   WriteAt: 0 <= n <= len(p); err == nil => n == len(p); content[off:off+n] = p[0:n];
//            size' = max(size, off+n)
// This is an assumption about the operating system / backend (A5 in DESIGN.md), implemented here
// exactly as stated. Part of the trusted base.

import (
	"go/token"
	"go/types"

	"golang.org/x/tools/go/ssa"
)

const fileContentKey = "F|$file|#content"
const fileSizeKey = "F|$file|#size"

func (x *Exec) fileContent(st *State, h *HeapSnap, ref *Term) *Term {
	var arr *Term
	if h != nil {
		arr = x.heapIn(st, *h, "E|$filebytes|", SInt)
	} else {
		arr = x.heapGet(st, "E|$filebytes|", SInt)
	}
	return Select(arr, ref)
}

func (x *Exec) fileSize(st *State, h *HeapSnap, ref *Term) *Term {
	var arr *Term
	if h != nil {
		arr = x.heapIn(st, *h, fileSizeKey, SInt)
	} else {
		arr = x.heapGet(st, fileSizeKey, SInt)
	}
	return Select(arr, ref)
}

func refOf(v *Val) *Term {
	switch v.K {
	case kPtr:
		return v.L.Base
	case kIface:
		return v.Ptr
	}
	return nil
}

// fileReadAt models f.ReadAt(p, off)
func (x *Exec) fileReadAt(st *State, f *Val, p *Val, off *Term, resT *types.Tuple, pos token.Pos) *Val {
	x.note("A5 file model: ReadAt/WriteAt over a ghost byte sequence per file object")
	ref := refOf(f)
	n := x.freshConst(st, "rd_n", SInt)
	errv := x.freshTyped(st, "rd_err", resT.At(1).Type())
	size := x.bind(st, x.fileSize(st, nil, ref), "fsize")
	x.assume(st, And(Ge(n, IntLit(0)), Le(n, p.Len), Implies(Eq(errv.Tag, IntLit(0)), Eq(n, p.Len)),
		Ge(size, IntLit(0)), Implies(Gt(n, IntLit(0)), Le(Add(off, n), size))), "file ReadAt")
	content := x.fileContent(st, nil, ref)
	key := "E|uint8|"
	arr := x.heapGet(st, key, SInt)
	dst := Select(arr, p.Arr)
	ni := x.writeRange(st, dst, p.Off, content, off, n, SInt)
	x.frameCheckRange(st, key, p.Arr, p.Off, Add(p.Off, p.Len), pos)
	st.heap[key] = Store(arr, p.Arr, ni)
	nv := scalar(WithBounds(n, bigI(0), maxAddr), resT.At(0).Type())
	return &Val{K: kTuple, F: []*Val{nv, errv}, Typ: resT}
}

// fileWriteAt models f.WriteAt(p, off)
func (x *Exec) fileWriteAt(st *State, f *Val, p *Val, off *Term, resT *types.Tuple, pos token.Pos) *Val {
	x.note("A5 file model: ReadAt/WriteAt over a ghost byte sequence per file object")
	ref := refOf(f)
	n := x.freshConst(st, "wr_n", SInt)
	errv := x.freshTyped(st, "wr_err", resT.At(1).Type())
	x.assume(st, And(Ge(n, IntLit(0)), Le(n, p.Len), Implies(Eq(errv.Tag, IntLit(0)), Eq(n, p.Len))), "file WriteAt")
	key := "E|uint8|"
	src := Select(x.heapGet(st, key, SInt), p.Arr)
	farr := x.heapGet(st, "E|$filebytes|", SInt)
	content := Select(farr, ref)
	nc := x.writeRange(st, content, off, src, p.Off, n, SInt)
	st.heap["E|$filebytes|"] = Store(farr, ref, nc)
	sz := x.heapGet(st, fileSizeKey, SInt)
	old := Select(sz, ref)
	end := Add(off, n)
	st.heap[fileSizeKey] = Store(sz, ref, x.bind(st, Ite(Gt(end, old), end, old), "fsize"))
	x.ghostCall(st, "file.WriteAt", []*Val{f, p, scalar(off, types.Typ[types.Int64])})
	// remember the extent of the last write for effect specifications
	st.ghost["lastwrite:off"] = off
	st.ghost["lastwrite:len"] = n
	st.ghost["lastwrite:file"] = ref
	nv := scalar(WithBounds(n, bigI(0), maxAddr), resT.At(0).Type())
	return &Val{K: kTuple, F: []*Val{nv, errv}, Typ: resT}
}

func (x *Exec) fileModels(fn *ssa.Function, name string) modelFn {
	switch name {
	case "(*os.File).ReadAt":
		return func(st *State, fr *Frame, fn *ssa.Function, args []*Val, pos token.Pos, cont retFn) {
			x.checkNonNil(st, args[0], pos)
			x.ghostCall(st, "file.ReadAt", []*Val{args[0], args[1], args[2]})
			cont(st, x.fileReadAt(st, args[0], args[1], args[2].T, fn.Signature.Results(), pos))
		}
	case "(*os.File).WriteAt":
		return func(st *State, fr *Frame, fn *ssa.Function, args []*Val, pos token.Pos, cont retFn) {
			x.checkNonNil(st, args[0], pos)
			cont(st, x.fileWriteAt(st, args[0], args[1], args[2].T, fn.Signature.Results(), pos))
		}
	}
	return nil
}

// ifaceFileModel handles ReadAt/WriteAt/GetStat invoked through the volume backend interface.
func (x *Exec) ifaceFileModel(st *State, call *ssa.CallCommon, recv *Val, args []*Val, pos token.Pos) (*Val, bool) {
	tn := call.Value.Type().String()
	if tn != "github.com/chrislusf/seaweedfs/weed/storage/backend.BackendStorageFile" && tn != "io.ReaderAt" && tn != "io.WriterAt" {
		return nil, false
	}
	sig := call.Signature()
	switch call.Method.Name() {
	case "ReadAt":
		x.ghostCall(st, "("+tn+").ReadAt", args)
		return x.fileReadAt(st, recv, args[0], args[1].T, sig.Results(), pos), true
	case "WriteAt":
		return x.fileWriteAt(st, recv, args[0], args[1].T, sig.Results(), pos), true
	case "GetStat":
		// (datSize, modTime, err): datSize is the ghost size when err == nil
		res := x.freshResult(st, "stat", sig.Results())
		size := x.fileSize(st, nil, refOf(recv))
		x.assume(st, Implies(Eq(res.F[2].Tag, IntLit(0)), And(Eq(res.F[0].T, size), Ge(size, IntLit(0)))), "file GetStat")
		return res, true
	}
	return nil, false
}
