package main

// Execution state: path condition, heap, frames; assume/check primitives.

import (
	"fmt"
	"go/token"
	"go/types"
	"math/big"
	"sort"
	"strings"

	"golang.org/x/tools/go/ssa"
)

type deferred struct {
	call *ssa.CallCommon
	fn   *Val
	args []*Val
	pos  token.Pos
}

type Frame struct {
	fn     *ssa.Function
	regs   map[ssa.Value]*Val
	names  map[string]*Val
	defers []deferred
	con    *Contract
	depth  int
	iter   map[int]int // loop header block index -> iterations unrolled on this path
	lets   map[string]*Val
	entry  map[string]*Val // parameter entry values by name
	inLoop map[int]bool    // headers whose invariant has been assumed on this path (cut loops)
	auto   map[int]bool    // headers being auto-unrolled
}

func (f *Frame) clone() *Frame {
	n := *f
	n.regs = make(map[ssa.Value]*Val, len(f.regs))
	for k, v := range f.regs {
		n.regs[k] = v
	}
	n.names = make(map[string]*Val, len(f.names))
	for k, v := range f.names {
		n.names[k] = v
	}
	n.defers = append([]deferred(nil), f.defers...)
	n.iter = map[int]int{}
	for k, v := range f.iter {
		n.iter[k] = v
	}
	n.inLoop = map[int]bool{}
	for k, v := range f.inLoop {
		n.inLoop[k] = v
	}
	n.auto = map[int]bool{}
	for k, v := range f.auto {
		n.auto[k] = v
	}
	n.lets = map[string]*Val{}
	for k, v := range f.lets {
		n.lets[k] = v
	}
	return &n
}

type State struct {
	pc        *PC
	heap      map[string]*Term // current heap (entries absent = untouched since epoch start)
	heap0     HeapSnap         // heap at entry of the function under verification
	declared  map[string]bool
	assumedR  map[string]bool
	frames    []*Frame
	allocBase *Term
	allocK    int64
	epoch     int
	ghost     map[string]*Term
	bounded   string // non-empty: this path passed an unwinding/bounding assumption
	trace     []string
	fresh     map[string]bool // texts of refs allocated in this activation
	calls     []string        // abstract call log (effects)
	stops     []*stopPoint    // pending join blocks (state merging)
	strSrc    map[string]*strSrc
	freshList []*Term         // references allocated in this activation, in order
	escaped   map[string]bool // ... of which these may be reachable from outside
}

func (s *State) top() *Frame { return s.frames[len(s.frames)-1] }

func (s *State) clone() *State {
	n := *s
	n.heap = make(map[string]*Term, len(s.heap))
	for k, v := range s.heap {
		n.heap[k] = v
	}
	n.declared = make(map[string]bool, len(s.declared))
	for k := range s.declared {
		n.declared[k] = true
	}
	n.assumedR = make(map[string]bool, len(s.assumedR))
	for k := range s.assumedR {
		n.assumedR[k] = true
	}
	n.ghost = make(map[string]*Term, len(s.ghost))
	for k, v := range s.ghost {
		n.ghost[k] = v
	}
	n.fresh = make(map[string]bool, len(s.fresh))
	for k := range s.fresh {
		n.fresh[k] = true
	}
	n.frames = make([]*Frame, len(s.frames))
	for i, f := range s.frames {
		n.frames[i] = f.clone()
	}
	n.freshList = append([]*Term(nil), s.freshList...)
	if s.escaped != nil {
		n.escaped = make(map[string]bool, len(s.escaped))
		for k := range s.escaped {
			n.escaped[k] = true
		}
	}
	if s.strSrc != nil {
		n.strSrc = make(map[string]*strSrc, len(s.strSrc))
		for k, v := range s.strSrc {
			n.strSrc[k] = v
		}
	}
	n.trace = append([]string(nil), s.trace...)
	n.calls = append([]string(nil), s.calls...)
	return &n
}

// ---------- Exec ----------

type Oblig struct {
	Name    string
	Fn      string
	Kind    string
	Clause  string
	Site    string
	Text    string
	PC      *PC
	Goal    *Term
	Bounded string
	Res     SolveResult
	Done    bool
	Trace   []string
	Inputs  []InputVar
	Outputs []InputVar
	X       *Exec
}

type InputVar struct {
	Name string // human name (param / field path)
	Term string // smt symbol
	Sort string
}

type Exec struct {
	w        *World
	sess     *Session
	nfresh   int
	obligs   []*Oblig
	funcs    []*Val
	typeIDs  map[string]int64
	typeByID map[int64]types.Type
	paths    int
	maxPaths int
	notes    map[string]int // assumptions / havocs encountered (for evidence)
	curFn    string
	curCon   *Contract
	trivial  int
	sessDis  int
	quiet    bool
	inputs   []InputVar
	discover bool
	aborted  string
	instrs   int
	globalsInit map[string]bool
	lastArgs    map[string]*Val
	visitedBlocks map[*ssa.BasicBlock]bool
	sinkArgs      []*Val
	sinkHit       map[string]bool // sink clauses whose callee was reached on some path
	seenCalls     map[string]bool // canonical names under which a call was counted on some path
	loopSortHint  map[string]string // "a:<callee>:<i>" / "r:<callee>:<i>" -> SMT sort of that argument / result
	allocBase0  *Term
	topMods     []modTarget
	autoHeader  []autoMark
	boundedNotes map[string]int
	inQuant      int
	merged       int
	noMerge      bool
	outputs      []InputVar
	loopPrecise  map[string][]preciseWrite
}

func NewExec(w *World) *Exec {
	return &Exec{w: w, typeIDs: map[string]int64{}, typeByID: map[int64]types.Type{}, maxPaths: 4096, notes: map[string]int{}}
}

func (x *Exec) note(s string) { x.notes[s]++ }

func (x *Exec) freshName(hint string) string {
	x.nfresh++
	return fmt.Sprintf("%s!%d", sanitize(hint), x.nfresh)
}

func sanitize(s string) string {
	var b strings.Builder
	for _, c := range s {
		switch {
		case c >= 'a' && c <= 'z', c >= 'A' && c <= 'Z', c >= '0' && c <= '9', c == '_', c == '.':
			b.WriteRune(c)
		default:
			b.WriteByte('_')
		}
	}
	r := b.String()
	if r == "" || (r[0] >= '0' && r[0] <= '9') {
		r = "v" + r
	}
	if len(r) > 48 {
		r = r[:48]
	}
	return r
}

func (x *Exec) typeID(t types.Type) int64 {
	k := typeKey(t)
	if id, ok := x.typeIDs[k]; ok {
		return id
	}
	id := int64(len(x.typeIDs) + 1)
	x.typeIDs[k] = id
	x.typeByID[id] = t
	return id
}

// declare adds a constant declaration to the path.
func (x *Exec) declare(st *State, name, sort string) *Term {
	if !st.declared[name] {
		st.declared[name] = true
		e := PCEntry{Kind: 0, Name: name, Sort: sort}
		st.pc = st.pc.Push(e)
		x.sess.Add(e)
	}
	return Var(name, sort)
}

func (x *Exec) declareFun(st *State, name string, args []string, sort string) {
	if !st.declared[name] {
		st.declared[name] = true
		e := PCEntry{Kind: 2, Name: name, Args: args, Sort: sort}
		st.pc = st.pc.Push(e)
		x.sess.Add(e)
	}
}

func (x *Exec) freshConst(st *State, hint, sort string) *Term {
	return x.declare(st, x.freshName(hint), sort)
}

func (x *Exec) assume(st *State, t *Term, label string) {
	if t.isTrue() {
		return
	}
	if x.inQuant > 0 {
		// side facts (type ranges, definitions) mentioning a bound variable cannot be asserted
		// at top level; dropping an assumption is always sound
		if label != "quant-ok" {
			return
		}
	}
	e := PCEntry{Kind: 1, T: t, Label: label}
	st.pc = st.pc.Push(e)
	// quantified facts are kept for the final (raced) discharge only: in the exploration session
	// they make every satisfiable feasibility query time out. Omitting assumptions there is sound.
	if !strings.Contains(t.s, "(forall ") && !strings.Contains(t.s, "(exists ") {
		x.sess.Add(e)
	}
}

// freshTyped makes a fresh symbolic value of Go type t (well-typed: ranges assumed).
func (x *Exec) freshTyped(st *State, hint string, t types.Type) *Val {
	ls := flatten(t)
	ts := make([]*Term, len(ls))
	for i, l := range ls {
		c := x.freshConst(st, hint+l.Path, l.Sort)
		ts[i] = c
	}
	v, _ := x.leavesVal(t, ts)
	x.assumeWellTyped(st, v, t)
	return v
}

// assumeWellTyped adds range facts for the leaves of v.
func (x *Exec) assumeWellTyped(st *State, v *Val, t types.Type) {
	switch u := t.Underlying().(type) {
	case *types.Basic:
		if b, ok := isIntType(t); ok && v.K == kScalar {
			lo, hi, _ := intRange(b)
			x.assumeRange(st, v.T, lo, hi)
		}
		if u.Info()&types.IsString != 0 && v.K == kScalar && v.T.slit == nil {
			x.assumeStr(st, v.T)
		}
	case *types.Pointer:
		if v.K == kPtr {
			x.assumeRef(st, v.L.Base)
		}
	case *types.Map, *types.Chan:
		if v.K == kScalar {
			x.assumeRef(st, v.T)
		}
	case *types.Slice:
		if v.K == kSlice {
			x.assumeSliceWF(st, v)
		}
	case *types.Interface:
		if v.K == kIface {
			key := "wf:" + v.Tag.s + v.Ptr.s
			if !st.assumedR[key] {
				st.assumedR[key] = true
				x.assume(st, And(Ge(v.Tag, IntLit(0)), Implies(Eq(v.Tag, IntLit(0)), Eq(v.Ptr, IntLit(0)))), "wf-iface")
			}
		}
	case *types.Struct:
		for i := 0; i < u.NumFields(); i++ {
			x.assumeWellTyped(st, v.F[i], u.Field(i).Type())
		}
	case *types.Array:
		for i := range v.F {
			x.assumeWellTyped(st, v.F[i], u.Elem())
		}
	case *types.Tuple:
		for i := range v.F {
			x.assumeWellTyped(st, v.F[i], u.At(i).Type())
		}
	}
}

func (x *Exec) assumeRange(st *State, t *Term, lo, hi *big.Int) {
	if t.lit != nil {
		return
	}
	key := "r:" + t.s + lo.String() + hi.String()
	if st.assumedR[key] {
		return
	}
	st.assumedR[key] = true
	lt := &Term{s: smtInt(lo.String()), sort: SInt}
	ht := &Term{s: smtInt(hi.String()), sort: SInt}
	x.assume(st, app(SBool, "and", app(SBool, "<=", lt, t), app(SBool, "<=", t, ht)), "range")
}

func smtInt(dec string) string {
	if strings.HasPrefix(dec, "-") {
		return "(- " + dec[1:] + ")"
	}
	return dec
}

func (x *Exec) assumeStr(st *State, t *Term) {
	// A4: strings are byte strings: all code points <= 255
	key := "s:" + t.s
	if st.assumedR[key] {
		return
	}
	st.assumedR[key] = true
	x.assume(st, app(SBool, "str.in_re", t, &Term{s: "(re.* (re.range \"\\u{0}\" \"\\u{ff}\"))", sort: "RegLan"}), "byte-string")
	// platform fact: no string is longer than the address space
	x.assume(st, app(SBool, "<=", app(SInt, "str.len", t), IntLitBig(maxAddr)), "string-length")
}

func (x *Exec) assumeRef(st *State, t *Term) {
	if t.lit != nil {
		return
	}
	key := "p:" + t.s
	if st.assumedR[key] || st.fresh[t.s] {
		return
	}
	st.assumedR[key] = true
	x.assume(st, And(Ge(t, IntLit(0)), Lt(t, Add(st.allocBase, IntLit(st.allocK)))), "ref-wf")
}

func (x *Exec) assumeSliceWF(st *State, v *Val) {
	key := "sl:" + v.Arr.s + "|" + v.Off.s + "|" + v.Len.s + "|" + v.Cap.s
	if st.assumedR[key] {
		return
	}
	st.assumedR[key] = true
	z := IntLit(0)
	mx := IntLitBig(maxAddr)
	// the terms carry interval annotations that this very assumption justifies: build the facts
	// from annotation-free copies so that they are not simplified away
	raw := func(t *Term) *Term {
		if t.lit != nil {
			return t
		}
		c := *t
		c.lo, c.hi = nil, nil
		return &c
	}
	arr, off, ln, cp := raw(v.Arr), raw(v.Off), raw(v.Len), raw(v.Cap)
	x.assume(st, And(Ge(arr, z), Lt(arr, Add(st.allocBase, IntLit(st.allocK))),
		Ge(off, z), Ge(ln, z), Le(ln, cp), Le(Add(off, cp), mx),
		Implies(Eq(arr, z), And(Eq(ln, z), Eq(cp, z)))), "slice-wf")
}

// alloc returns a fresh non-nil object reference distinct from every earlier one.
func (x *Exec) alloc(st *State) *Term {
	r := Add(st.allocBase, IntLit(st.allocK))
	st.allocK++
	c := x.freshConst(st, "new", SInt)
	x.assume(st, Eq(c, r), "alloc")
	c = WithBounds(c, bigI(1), nil)
	st.fresh[c.s] = true
	st.freshList = append(st.freshList, c)
	return c
}

// bumpAllocBase: after an opaque call that may have allocated.
func (x *Exec) bumpAllocBase(st *State) {
	nb := x.freshConst(st, "ALLOC", SInt)
	x.assume(st, Ge(nb, Add(st.allocBase, IntLit(st.allocK))), "alloc-base")
	st.allocBase = nb
	st.allocK = 0
}

// ---------- heap ----------

func heapSort(key, leafSort string) string {
	if strings.HasPrefix(key, "M|") {
		if strings.HasSuffix(key, "|#len") {
			return SArr(SInt, SInt)
		}
		ks := key[2:]
		ks = ks[:strings.Index(ks, "|")]
		return SArr(SInt, SArr(ks, leafSort))
	}
	if strings.HasPrefix(key, "E|") {
		return SArr(SInt, SArr(SInt, leafSort))
	}
	return SArr(SInt, leafSort)
}

// HeapSnap is an immutable view of the heap at some point of a path.
type HeapSnap struct {
	m     map[string]*Term
	epoch int
}

func (st *State) snap() HeapSnap {
	m := make(map[string]*Term, len(st.heap))
	for k, v := range st.heap {
		m[k] = v
	}
	return HeapSnap{m, st.epoch}
}

func (x *Exec) heapSym(key string) string {
	return sanitize(strings.NewReplacer("F|", "", "E|", "elem_", "G|", "glob_", "|", "").Replace(key)) + fmt.Sprintf("_%x", hash32(key))
}

func hash32(s string) uint32 {
	var h uint32 = 2166136261
	for i := 0; i < len(s); i++ {
		h ^= uint32(s[i])
		h *= 16777619
	}
	return h
}

// epochInit is the (deterministically named) array holding key's content at the start of an epoch.
func (x *Exec) epochInit(st *State, epoch int, key, leafSort string) *Term {
	return x.declare(st, fmt.Sprintf("H%d_%s", epoch, x.heapSym(key)), heapSort(key, leafSort))
}

func (x *Exec) heapIn(st *State, h HeapSnap, key, leafSort string) *Term {
	if t, ok := h.m[key]; ok {
		return t
	}
	return x.epochInit(st, h.epoch, key, leafSort)
}

func (x *Exec) heapGet(st *State, key, leafSort string) *Term {
	if t, ok := st.heap[key]; ok {
		if len(t.s) > 240 && x.inQuant == 0 {
			// name large heap terms so that later updates do not duplicate them
			c := x.freshConst(st, "hp", t.sort)
			x.assume(st, app(SBool, "=", c, t), "def-heap")
			st.heap[key] = c
			return c
		}
		return t
	}
	t := x.epochInit(st, st.epoch, key, leafSort)
	st.heap[key] = t
	return t
}

// havocAll forgets everything about the heap.
func (x *Exec) havocAll(st *State, why string) {
	x.havocAllBut(st, why, false)
}

// havocAllBut forgets the heap. With keepLocals, the contents of objects allocated in this
// activation that have not escaped (never passed to a call, stored into the heap or captured by
// a closure) are kept: code outside this function cannot reach them.
func (x *Exec) havocAllBut(st *State, why string, keepLocals bool) {
	old := st.heap
	x.nfresh++
	st.epoch = x.nfresh
	st.heap = map[string]*Term{}
	x.note("havoc-all: " + why)
	if !keepLocals {
		return
	}
	var keep []*Term
	for _, r := range st.freshList {
		if !st.escaped[r.s] {
			keep = append(keep, r)
		}
	}
	if len(keep) == 0 || len(keep) > 24 {
		return
	}
	for _, k := range sortedKeys(old) {
		t := old[k]
		if strings.HasPrefix(k, "G|") {
			continue
		}
		if len(t.s) > 64 {
			// name the old array: it is mentioned once per kept object below
			c := x.freshConst(st, "hpo", t.sort)
			x.assume(st, app(SBool, "=", c, t), "def-heap")
			t = c
		}
		na := x.declare(st, fmt.Sprintf("H%d_%s", st.epoch, x.heapSym(k)), t.sort)
		cur := na
		for _, r := range keep {
			cur = Store(cur, r, Select(t, r))
		}
		st.heap[k] = cur
	}
}

// markEscaped records every object identity reachable directly from v as escaped.
func (x *Exec) markEscaped(st *State, v *Val) {
	if v == nil {
		return
	}
	if st.escaped == nil {
		st.escaped = map[string]bool{}
	}
	switch v.K {
	case kPtr:
		st.escaped[v.L.Base.s] = true
	case kSlice:
		st.escaped[v.Arr.s] = true
	case kIface:
		st.escaped[v.Ptr.s] = true
	case kScalar:
		if v.Typ != nil {
			switch v.Typ.Underlying().(type) {
			case *types.Map, *types.Chan:
				st.escaped[v.T.s] = true
			}
		}
	case kStruct, kArray, kTuple:
		for _, f := range v.F {
			x.markEscaped(st, f)
		}
	case kFunc:
		for _, b := range v.Bind {
			x.markEscaped(st, b)
		}
	}
}

func (x *Exec) havocKey(st *State, key, leafSort string) {
	st.heap[key] = x.freshConst(st, "Hh_"+x.heapSym(key), heapSort(key, leafSort))
}

func (x *Exec) loadLeaf(st *State, h *HeapSnap, l *Loc, lf leaf) *Term {
	key := l.Root + "|" + l.Path + lf.Path
	var arr *Term
	if h != nil {
		arr = x.heapIn(st, *h, key, lf.Sort)
	} else {
		arr = x.heapGet(st, key, lf.Sort)
	}
	if l.Idx != nil {
		return Select(Select(arr, l.Base), l.Idx)
	}
	return Select(arr, l.Base)
}

func (x *Exec) storeLeaf(st *State, l *Loc, lf leaf, v *Term) {
	key := l.Root + "|" + l.Path + lf.Path
	arr := x.heapGet(st, key, lf.Sort)
	if l.Idx != nil {
		inner := Select(arr, l.Base)
		st.heap[key] = Store(arr, l.Base, Store(inner, l.Idx, v))
	} else {
		st.heap[key] = Store(arr, l.Base, v)
	}
}

// load reads a whole value of type l.T at location l.
func (x *Exec) load(st *State, l *Loc, h *HeapSnap) *Val {
	ls := flatten(l.T)
	ts := make([]*Term, len(ls))
	for i, lf := range ls {
		t := x.loadLeaf(st, h, l, lf)
		ts[i] = x.bind(st, t, "ld"+lf.Path)
	}
	v, _ := x.leavesVal(l.T, ts)
	x.assumeWellTyped(st, v, l.T)
	return v
}

func (x *Exec) store(st *State, l *Loc, v *Val) {
	ls := flatten(l.T)
	ts := x.valLeaves(st, v, l.T)
	if len(ts) != len(ls) {
		panic(fmt.Sprintf("store: leaf count mismatch for %s: %d vs %d", l.T, len(ts), len(ls)))
	}
	for i, lf := range ls {
		x.storeLeaf(st, l, lf, ts[i])
	}
}

// bind names a large term with a fresh constant to keep formulas small.
func (x *Exec) bind(st *State, t *Term, hint string) *Term {
	if len(t.s) <= 96 || t.lit != nil || x.inQuant > 0 {
		return t
	}
	c := x.freshConst(st, hint, t.sort)
	x.assume(st, app(SBool, "=", c, t), "def")
	c.lo, c.hi = t.lo, t.hi
	return c
}

// sub-location helpers
func (l *Loc) field(name string, ft types.Type) *Loc {
	return &Loc{Base: l.Base, Root: l.Root, Path: l.Path + "." + name, Idx: l.Idx, T: ft}
}

// signHint annotates t with a sign bound when the path condition implies one (asked of the
// exploration session), so that Go's truncating division can be rendered as plain div/mod.
func (x *Exec) signHint(st *State, t *Term) *Term {
	if t.lit != nil || t.sort != SInt || x.inQuant > 0 {
		return t
	}
	if t.lo != nil && t.lo.Sign() >= 0 {
		return t
	}
	if t.hi != nil && t.hi.Sign() < 0 {
		return t
	}
	key := "sign:" + t.s
	if v, ok := st.ghost[key]; ok {
		if v.isTrue() {
			return WithBounds(t, bigI(0), nil)
		}
		return t
	}
	raw := *t
	raw.lo, raw.hi = nil, nil
	if x.sess.CheckWith(app(SBool, "<", &raw, IntLit(0))) == Unsat {
		st.ghost[key] = TTrue
		return WithBounds(t, bigI(0), nil)
	}
	st.ghost[key] = TFalse
	return t
}

func sortedKeys(m map[string]*Term) []string {
	ks := make([]string, 0, len(m))
	for k := range m {
		ks = append(ks, k)
	}
	sort.Strings(ks)
	return ks
}
