package main

// Built-in models of library functions (exact semantics implemented here are part of the
// trusted base; see DESIGN appendix C).

import (
	"go/token"
	"go/types"
	"strings"

	"golang.org/x/tools/go/ssa"
)

type modelFn func(st *State, fr *Frame, fn *ssa.Function, args []*Val, pos token.Pos, cont retFn)

func (x *Exec) isNoEffectModel(f *ssa.Function) bool {
	name := f.String()
	if isLogOrMetric(name) {
		return true
	}
	switch {
	case strings.HasPrefix(name, "(*sync."), strings.HasPrefix(name, "time."), strings.HasPrefix(name, "(time."),
		strings.HasPrefix(name, "fmt.Sprintf"), strings.HasPrefix(name, "fmt.Errorf"), strings.HasPrefix(name, "errors.New"),
		strings.HasPrefix(name, "strings."), strings.HasPrefix(name, "strconv."), strings.HasPrefix(name, "math."),
		strings.HasPrefix(name, "bytes.Equal"), strings.HasPrefix(name, "bytes.Compare"), strings.HasPrefix(name, "fmt.Sprint"):
		return true
	}
	return false
}

func isLogOrMetric(name string) bool {
	return strings.Contains(name, "/weed/glog.") || strings.Contains(name, "/weed/glog)") ||
		strings.Contains(name, "prometheus") || strings.Contains(name, "/weed/stats.") || strings.Contains(name, "/weed/stats)")
}

func (x *Exec) voidOrFresh(st *State, fn *ssa.Function, cont retFn) {
	cont(st, x.freshResult(st, sanitize(fn.Name()), fn.Signature.Results()))
}

func (x *Exec) newError(st *State, t types.Type) *Val {
	ref := x.alloc(st)
	return &Val{K: kIface, Tag: IntLit(x.typeID(types.NewPointer(types.Typ[types.String]))), Ptr: ref, Typ: t}
}

func (x *Exec) model(fn *ssa.Function, name string) modelFn {
	if m := x.strModels(fn, name); m != nil {
		return m
	}
	if m := x.timeModels(fn, name); m != nil {
		return m
	}
	if m := x.fileModels(fn, name); m != nil {
		return m
	}
	// logging and metrics: A1 effect-free
	if isLogOrMetric(name) {
		if strings.Contains(name, "glog.Fatal") || strings.Contains(name, "glog.Exit") {
			return func(st *State, fr *Frame, fn *ssa.Function, args []*Val, pos token.Pos, cont retFn) {
				x.note("A1 glog.Fatal/Exit ends the process (path dropped)")
				x.endPath(st, "fatal")
			}
		}
		return func(st *State, fr *Frame, fn *ssa.Function, args []*Val, pos token.Pos, cont retFn) {
			x.voidOrFresh(st, fn, cont)
		}
	}
	switch name {
	case "(*sync.Mutex).Lock", "(*sync.Mutex).Unlock", "(*sync.RWMutex).Lock", "(*sync.RWMutex).Unlock",
		"(*sync.RWMutex).RLock", "(*sync.RWMutex).RUnlock", "(*sync.WaitGroup).Add", "(*sync.WaitGroup).Done", "(*sync.WaitGroup).Wait",
		"(*sync.Once).Do", "runtime.Gosched", "runtime.KeepAlive":
		return func(st *State, fr *Frame, fn *ssa.Function, args []*Val, pos token.Pos, cont retFn) {
			if strings.HasSuffix(name, "Lock") || strings.HasSuffix(name, "Unlock") {
				x.ghostCall(st, name, nil)
			}
			cont(st, &Val{K: kTuple})
		}
	case "errors.New", "fmt.Errorf":
		return func(st *State, fr *Frame, fn *ssa.Function, args []*Val, pos token.Pos, cont retFn) {
			cont(st, x.newError(st, fn.Signature.Results().At(0).Type()))
		}
	case "sort.Search":
		// sort.Search(n, f) returns some r in [0,n] with f(r) (if r < n) and !f(r-1) (if r > 0):
		// exactly what its binary search establishes, with no monotonicity assumed. f is run
		// symbolically (for its safety obligations too) at r and r-1, clamped into [0,n).
		return func(st *State, fr *Frame, fn *ssa.Function, args []*Val, pos token.Pos, cont retFn) {
			n, f := args[0].T, args[1]
			intT := types.Typ[types.Int]
			if f.K != kFunc || f.Fn == nil {
				x.note("sort.Search with unknown predicate: result only bounded")
				r := x.freshTyped(st, "search", intT)
				x.assume(st, And(Ge(r.T, IntLit(0)), Or(Le(r.T, n), Eq(r.T, IntLit(0)))), "sort.Search range")
				cont(st, r)
				return
			}
			x.fork2(st, Gt(n, IntLit(0)), "sort.Search n>0", func(st *State) {
				r := x.freshTyped(st, "search", intT)
				x.assume(st, And(Ge(r.T, IntLit(0)), Le(r.T, n)), "sort.Search range")
				i1 := scalar(Ite(Lt(r.T, n), r.T, Sub(n, IntLit(1))), intT)
				x.callFunc(st, fr, f.Fn, []*Val{i1}, f.Bind, pos, func(st *State, v1 *Val) {
					x.assume(st, Implies(Lt(r.T, n), v1.T), "sort.Search f(r)")
					i2 := scalar(Ite(Gt(r.T, IntLit(0)), Sub(r.T, IntLit(1)), IntLit(0)), intT)
					x.callFunc(st, fr, f.Fn, []*Val{i2}, f.Bind, pos, func(st *State, v2 *Val) {
						x.assume(st, Implies(Gt(r.T, IntLit(0)), Not(v2.T)), "sort.Search !f(r-1)")
						x.ghostCall(st, "sort.Search", []*Val{args[0]})
						x.ghostRet(st, "sort.Search", r)
						cont(st, r)
					})
				})
			}, func(st *State) {
				r := scalar(IntLit(0), intT)
				x.ghostCall(st, "sort.Search", []*Val{args[0]})
				x.ghostRet(st, "sort.Search", r)
				cont(st, r)
			})
		}
	case "sync/atomic.AddUint64", "sync/atomic.AddInt64", "sync/atomic.AddInt32", "sync/atomic.AddUint32":
		return func(st *State, fr *Frame, fn *ssa.Function, args []*Val, pos token.Pos, cont retFn) {
			x.note("sync/atomic modelled as plain sequential access")
			p := args[0]
			x.checkNonNil(st, p, pos)
			rt := fn.Signature.Results().At(0).Type()
			l := *p.L
			l.T = rt
			old := x.load(st, &l, nil)
			b, _ := isIntType(rt)
			nv := scalar(x.arith(st, Add(old.T, args[1].T), b, pos), rt)
			x.frameCheck(st, &l, pos)
			x.store(st, &l, nv)
			cont(st, nv)
		}
	case "sync/atomic.LoadUint64", "sync/atomic.LoadInt64", "sync/atomic.LoadInt32", "sync/atomic.LoadUint32":
		return func(st *State, fr *Frame, fn *ssa.Function, args []*Val, pos token.Pos, cont retFn) {
			x.note("sync/atomic modelled as plain sequential access")
			p := args[0]
			x.checkNonNil(st, p, pos)
			l := *p.L
			l.T = fn.Signature.Results().At(0).Type()
			cont(st, x.load(st, &l, nil))
		}
	case "sync/atomic.StoreUint64", "sync/atomic.StoreInt64", "sync/atomic.StoreInt32", "sync/atomic.StoreUint32":
		return func(st *State, fr *Frame, fn *ssa.Function, args []*Val, pos token.Pos, cont retFn) {
			x.note("sync/atomic modelled as plain sequential access")
			p := args[0]
			x.checkNonNil(st, p, pos)
			l := *p.L
			l.T = fn.Signature.Params().At(1).Type()
			x.frameCheck(st, &l, pos)
			x.store(st, &l, args[1])
			cont(st, &Val{K: kTuple})
		}
	case "strings.HasPrefix":
		return x.strModel(func(a []*Term) *Term { return StrPrefixOf(a[1], a[0]) })
	case "strings.HasSuffix":
		return x.strModel(func(a []*Term) *Term { return StrSuffixOf(a[1], a[0]) })
	case "strings.Contains":
		return x.strModel(func(a []*Term) *Term { return StrContains(a[0], a[1]) })
	case "strings.Index":
		return x.strModel(func(a []*Term) *Term { return StrIndexOf(a[0], a[1], IntLit(0)) })
	case "strings.LastIndex":
		// axiomatised: r is the start of the last occurrence of sep in s, -1 if there is none
		return func(st *State, fr *Frame, fn *ssa.Function, args []*Val, pos token.Pos, cont retFn) {
			cont(st, scalar(x.strLastIndex(st, args[0].T, args[1].T), types.Typ[types.Int]))
		}
	case "strings.TrimPrefix":
		return x.strModel(func(a []*Term) *Term {
			return Ite(StrPrefixOf(a[1], a[0]), StrSubstr(a[0], StrLen(a[1]), Sub(StrLen(a[0]), StrLen(a[1]))), a[0])
		})
	case "strings.TrimSuffix":
		return x.strModel(func(a []*Term) *Term {
			return Ite(StrSuffixOf(a[1], a[0]), StrSubstr(a[0], IntLit(0), Sub(StrLen(a[0]), StrLen(a[1]))), a[0])
		})
	case "(*bytes.Buffer).Reset":
		return func(st *State, fr *Frame, fn *ssa.Function, args []*Val, pos token.Pos, cont retFn) {
			b := x.bufLoc(st, args[0], pos)
			cur := x.load(st, b, nil)
			nv := &Val{K: kSlice, Arr: cur.Arr, Off: cur.Off, Len: IntLit(0), Cap: cur.Cap, Typ: cur.Typ}
			x.frameCheck(st, b, pos)
			x.store(st, b, nv)
			o := args[0].L.field("off", types.Typ[types.Int])
			x.store(st, o, scalar(IntLit(0), types.Typ[types.Int]))
			cont(st, &Val{K: kTuple})
		}
	case "(*bytes.Buffer).Write", "(*bytes.Buffer).WriteString":
		return func(st *State, fr *Frame, fn *ssa.Function, args []*Val, pos token.Pos, cont retFn) {
			b := x.bufLoc(st, args[0], pos)
			cur := x.load(st, b, nil)
			nv := x.bufferAppend(st, cur, args[1], pos)
			x.frameCheck(st, b, pos)
			x.store(st, b, nv)
			n := scalar(x.lenOf(args[1]), types.Typ[types.Int])
			cont(st, &Val{K: kTuple, F: []*Val{n, x.zeroVal(fn.Signature.Results().At(1).Type())}, Typ: fn.Signature.Results()})
		}
	case "(*bytes.Buffer).WriteByte":
		return func(st *State, fr *Frame, fn *ssa.Function, args []*Val, pos token.Pos, cont retFn) {
			b := x.bufLoc(st, args[0], pos)
			cur := x.load(st, b, nil)
			bt := types.NewSlice(types.Typ[types.Uint8])
			one := x.newSlice(st, bt, IntLit(1), IntLit(1))
			x.storeLeaf(st, &Loc{Base: one.Arr, Root: "E|uint8", Idx: IntLit(0), T: types.Typ[types.Uint8]}, leaf{Path: "", Sort: SInt}, args[1].T)
			nv := x.bufferAppend(st, cur, one, pos)
			x.frameCheck(st, b, pos)
			x.store(st, b, nv)
			cont(st, x.zeroVal(fn.Signature.Results().At(0).Type()))
		}
	case "(*bytes.Buffer).Bytes":
		return func(st *State, fr *Frame, fn *ssa.Function, args []*Val, pos token.Pos, cont retFn) {
			b := x.bufLoc(st, args[0], pos)
			cur := x.load(st, b, nil)
			off := x.load(st, args[0].L.field("off", types.Typ[types.Int]), nil).T
			cont(st, &Val{K: kSlice, Arr: cur.Arr, Off: Add(cur.Off, off), Len: Sub(cur.Len, off), Cap: Sub(cur.Cap, off), Typ: cur.Typ})
		}
	case "(*bytes.Buffer).Len":
		return func(st *State, fr *Frame, fn *ssa.Function, args []*Val, pos token.Pos, cont retFn) {
			b := x.bufLoc(st, args[0], pos)
			cur := x.load(st, b, nil)
			off := x.load(st, args[0].L.field("off", types.Typ[types.Int]), nil).T
			cont(st, scalar(Sub(cur.Len, off), types.Typ[types.Int]))
		}
	case "bytes.Equal":
		return func(st *State, fr *Frame, fn *ssa.Function, args []*Val, pos token.Pos, cont retFn) {
			a, b := args[0], args[1]
			key := "E|uint8|"
			arr := x.heapGet(st, key, SInt)
			ia, ib := Select(arr, a.Arr), Select(arr, b.Arr)
			r := x.freshConst(st, "byteseq", SBool)
			i := Var("i!be", SInt)
			same := Forall([][2]string{{"i!be", SInt}}, Implies(And(Le(IntLit(0), i), Lt(i, a.Len)),
				app(SBool, "=", Select(ia, Add(a.Off, i)), Select(ib, Add(b.Off, i)))))
			x.assume(st, app(SBool, "=", r, And(Eq(a.Len, b.Len), same)), "bytes.Equal")
			cont(st, scalar(r, types.Typ[types.Bool]))
		}
	case "bytes.Compare":
		// -1, 0 or +1; 0 exactly when the two byte strings are equal (the order itself is not
		// modelled); nil slices are empty byte strings
		return func(st *State, fr *Frame, fn *ssa.Function, args []*Val, pos token.Pos, cont retFn) {
			a, b := args[0], args[1]
			r := x.freshConst(st, "bytescmp", SInt)
			x.assume(st, And(Ge(r, IntLit(-1)), Le(r, IntLit(1))), "bytes.Compare range")
			if a.K == kSlice && b.K == kSlice {
				key := "E|uint8|"
				arr := x.heapGet(st, key, SInt)
				ia, ib := Select(arr, a.Arr), Select(arr, b.Arr)
				i := Var("i!bc", SInt)
				same := Forall([][2]string{{"i!bc", SInt}}, Implies(And(Le(IntLit(0), i), Lt(i, a.Len)),
					app(SBool, "=", Select(ia, Add(a.Off, i)), Select(ib, Add(b.Off, i)))))
				x.assume(st, app(SBool, "=", Eq(r, IntLit(0)), And(Eq(a.Len, b.Len), same)), "bytes.Compare")
			}
			cont(st, scalar(r, types.Typ[types.Int]))
		}
	}
	return nil
}

func (x *Exec) strModel(f func(a []*Term) *Term) modelFn {
	return func(st *State, fr *Frame, fn *ssa.Function, args []*Val, pos token.Pos, cont retFn) {
		ts := make([]*Term, len(args))
		for i, a := range args {
			ts[i] = a.T
		}
		r := x.bind(st, f(ts), "str")
		v := scalar(r, fn.Signature.Results().At(0).Type())
		cont(st, v)
	}
}

// bufLoc: location of the buf field of a *bytes.Buffer (exact model: Write appends to buf).
func (x *Exec) bufLoc(st *State, p *Val, pos token.Pos) *Loc {
	x.checkNonNil(st, p, pos)
	x.note("bytes.Buffer modelled exactly as (buf []byte, off int): Write appends, Reset truncates")
	return p.L.field("buf", types.NewSlice(types.Typ[types.Uint8]))
}

// bufferAppend models growth of a bytes.Buffer as an in-place extension of one logical byte
// sequence: the content array of the buffer keeps its identity and the written bytes land at
// [len, len+n). Reallocation is not modelled; this is exact for every use that respects the
// documented rule that a slice obtained from Bytes() is not used after the next modification.
func (x *Exec) bufferAppend(st *State, cur, src *Val, pos token.Pos) *Val {
	x.note("bytes.Buffer growth modelled in place (slices from Bytes() assumed unused after the next write, as documented)")
	n := x.lenOf(src)
	key := "E|uint8|"
	arrRef := cur.Arr
	if x.sess.CheckWith(Eq(cur.Arr, IntLit(0))) != Unsat {
		nr := x.alloc(st)
		arrRef = x.bind(st, Ite(Eq(cur.Arr, IntLit(0)), nr, cur.Arr), "bufarr")
		x.assume(st, Neq(arrRef, IntLit(0)), "buffer array non-nil")
	}
	h := x.heapGet(st, key, SInt)
	var srcInner, srcOff *Term
	if src.K == kScalar && src.T.sort == SStr {
		bt := types.NewSlice(types.Typ[types.Uint8])
		sb := x.stringToBytes(st, src.T, bt.Underlying().(*types.Slice), bt)
		h = x.heapGet(st, key, SInt)
		srcInner, srcOff = Select(h, sb.Arr), IntLit(0)
	} else {
		srcInner, srcOff = Select(h, src.Arr), src.Off
	}
	dst := Select(h, arrRef)
	start := x.bind(st, Add(cur.Off, cur.Len), "bufend")
	ni := x.writeRange(st, dst, start, srcInner, srcOff, n, SInt)
	x.frameCheckRange(st, key, arrRef, start, Add(start, n), pos)
	st.heap[key] = Store(h, arrRef, ni)
	newLen := x.bind(st, Add(cur.Len, n), "buflen")
	newCap := x.bind(st, Ite(Le(newLen, cur.Cap), cur.Cap, newLen), "bufcap")
	return &Val{K: kSlice, Arr: arrRef, Off: cur.Off, Len: WithBounds(newLen, bigI(0), maxAddr), Cap: WithBounds(newCap, bigI(0), maxAddr), Typ: cur.Typ}
}
