package main

// SMT term construction with light simplification and interval tracking.
// Terms are immutable; text is the SMT-LIB rendering.

import (
	"fmt"
	"math/big"
	"strings"
)

const (
	SInt  = "Int"
	SBool = "Bool"
	SStr  = "String"
)

func SArr(k, v string) string { return "(Array " + k + " " + v + ")" }

type Term struct {
	s      string
	sort   string
	lit    *big.Int // integer literal value
	blit   int      // 0 none, 1 true, 2 false
	slit   *string  // string literal
	lo, hi *big.Int // known inclusive bounds (Int sort), may be nil
	// structured view for select/store simplification
	op   string
	args []*Term
	// bound variables (name, sort) of a quantifier built by Forall
	qvars [][2]string
}

func (t *Term) String() string { return t.s }

var (
	TTrue  = &Term{s: "true", sort: SBool, blit: 1}
	TFalse = &Term{s: "false", sort: SBool, blit: 2}
)

func bigI(i int64) *big.Int { return big.NewInt(i) }

func IntLitBig(v *big.Int) *Term {
	var s string
	if v.Sign() < 0 {
		s = "(- " + new(big.Int).Neg(v).String() + ")"
	} else {
		s = v.String()
	}
	c := new(big.Int).Set(v)
	return &Term{s: s, sort: SInt, lit: c, lo: c, hi: c}
}
func IntLit(i int64) *Term { return IntLitBig(big.NewInt(i)) }

func BoolLit(b bool) *Term {
	if b {
		return TTrue
	}
	return TFalse
}

func StrLit(v string) *Term {
	var b strings.Builder
	b.WriteByte('"')
	for i := 0; i < len(v); i++ {
		c := v[i]
		if c == '"' {
			b.WriteString("\"\"")
		} else if c >= 0x20 && c < 0x7f && c != '\\' {
			b.WriteByte(c)
		} else {
			fmt.Fprintf(&b, "\\u{%x}", c)
		}
	}
	b.WriteByte('"')
	vv := v
	return &Term{s: b.String(), sort: SStr, slit: &vv}
}

func Var(name, sort string) *Term { return &Term{s: name, sort: sort, op: "var"} }

func VarB(name string, lo, hi *big.Int) *Term {
	return &Term{s: name, sort: SInt, op: "var", lo: lo, hi: hi}
}

func app(sort, op string, args ...*Term) *Term {
	var b strings.Builder
	b.WriteByte('(')
	b.WriteString(op)
	for _, a := range args {
		b.WriteByte(' ')
		b.WriteString(a.s)
	}
	b.WriteByte(')')
	return &Term{s: b.String(), sort: sort, op: op, args: args}
}

func (t *Term) isTrue() bool  { return t.blit == 1 }
func (t *Term) isFalse() bool { return t.blit == 2 }

func mustSort(t *Term, s string) {
	if t.sort != s {
		panic(fmt.Sprintf("sort mismatch: %s has sort %s, want %s", t.s, t.sort, s))
	}
}

// ---------- boolean ----------

func Not(a *Term) *Term {
	mustSort(a, SBool)
	if a.blit == 1 {
		return TFalse
	}
	if a.blit == 2 {
		return TTrue
	}
	if a.op == "not" {
		return a.args[0]
	}
	return app(SBool, "not", a)
}

func And(as ...*Term) *Term {
	var out []*Term
	seen := map[string]bool{}
	for _, a := range as {
		mustSort(a, SBool)
		if a.isFalse() {
			return TFalse
		}
		if a.isTrue() || seen[a.s] {
			continue
		}
		seen[a.s] = true
		if a.op == "and" {
			for _, x := range a.args {
				if !seen[x.s] {
					seen[x.s] = true
					out = append(out, x)
				}
			}
			continue
		}
		out = append(out, a)
	}
	if len(out) == 0 {
		return TTrue
	}
	if len(out) == 1 {
		return out[0]
	}
	return app(SBool, "and", out...)
}

func Or(as ...*Term) *Term {
	var out []*Term
	seen := map[string]bool{}
	for _, a := range as {
		mustSort(a, SBool)
		if a.isTrue() {
			return TTrue
		}
		if a.isFalse() || seen[a.s] {
			continue
		}
		seen[a.s] = true
		out = append(out, a)
	}
	if len(out) == 0 {
		return TFalse
	}
	if len(out) == 1 {
		return out[0]
	}
	return app(SBool, "or", out...)
}

func Implies(a, b *Term) *Term {
	if a.isTrue() {
		return b
	}
	if a.isFalse() || b.isTrue() {
		return TTrue
	}
	if b.isFalse() {
		return Not(a)
	}
	return app(SBool, "=>", a, b)
}

func Ite(c, a, b *Term) *Term {
	mustSort(c, SBool)
	if a.sort != b.sort {
		panic(fmt.Sprintf("ite sorts differ: %s : %s vs %s : %s", a.s, a.sort, b.s, b.sort))
	}
	if c.isTrue() {
		return a
	}
	if c.isFalse() {
		return b
	}
	if a.s == b.s {
		return a
	}
	if a.sort == SBool {
		if a.isTrue() && b.isFalse() {
			return c
		}
		if a.isFalse() && b.isTrue() {
			return Not(c)
		}
	}
	t := app(a.sort, "ite", c, a, b)
	if a.sort == SInt {
		if a.lo != nil && b.lo != nil {
			t.lo = minB(a.lo, b.lo)
		}
		if a.hi != nil && b.hi != nil {
			t.hi = maxB(a.hi, b.hi)
		}
	}
	return t
}

func Eq(a, b *Term) *Term {
	if a.sort != b.sort {
		panic(fmt.Sprintf("eq sorts differ: %s : %s vs %s : %s", a.s, a.sort, b.s, b.sort))
	}
	if a.s == b.s {
		return TTrue
	}
	if a.lit != nil && b.lit != nil {
		return BoolLit(a.lit.Cmp(b.lit) == 0)
	}
	if a.blit != 0 && b.blit != 0 {
		return BoolLit(a.blit == b.blit)
	}
	if a.slit != nil && b.slit != nil {
		return BoolLit(*a.slit == *b.slit)
	}
	if a.sort == SBool {
		if b.isTrue() {
			return a
		}
		if b.isFalse() {
			return Not(a)
		}
		if a.isTrue() {
			return b
		}
		if a.isFalse() {
			return Not(b)
		}
	}
	if a.sort == SInt && disjoint(a, b) {
		return TFalse
	}
	return app(SBool, "=", a, b)
}

func Neq(a, b *Term) *Term { return Not(Eq(a, b)) }

func disjoint(a, b *Term) bool {
	if a.hi != nil && b.lo != nil && a.hi.Cmp(b.lo) < 0 {
		return true
	}
	if b.hi != nil && a.lo != nil && b.hi.Cmp(a.lo) < 0 {
		return true
	}
	return false
}

// ---------- integer ----------

func minB(a, b *big.Int) *big.Int {
	if a.Cmp(b) <= 0 {
		return a
	}
	return b
}
func maxB(a, b *big.Int) *big.Int {
	if a.Cmp(b) >= 0 {
		return a
	}
	return b
}

func Add(a, b *Term) *Term {
	mustSort(a, SInt)
	mustSort(b, SInt)
	if a.lit != nil && b.lit != nil {
		return IntLitBig(new(big.Int).Add(a.lit, b.lit))
	}
	if a.lit != nil && a.lit.Sign() == 0 {
		return b
	}
	if b.lit != nil && b.lit.Sign() == 0 {
		return a
	}
	// (x + c1) + c2
	if b.lit != nil && a.op == "+" && len(a.args) == 2 && a.args[1].lit != nil {
		return Add(a.args[0], IntLitBig(new(big.Int).Add(a.args[1].lit, b.lit)))
	}
	if b.lit != nil && a.op == "-" && len(a.args) == 2 && a.args[1].lit != nil {
		return Add(a.args[0], IntLitBig(new(big.Int).Sub(b.lit, a.args[1].lit)))
	}
	if b.lit != nil && b.lit.Sign() < 0 {
		return Sub(a, IntLitBig(new(big.Int).Neg(b.lit)))
	}
	t := app(SInt, "+", a, b)
	if a.lo != nil && b.lo != nil {
		t.lo = new(big.Int).Add(a.lo, b.lo)
	}
	if a.hi != nil && b.hi != nil {
		t.hi = new(big.Int).Add(a.hi, b.hi)
	}
	return t
}

func Sub(a, b *Term) *Term {
	mustSort(a, SInt)
	mustSort(b, SInt)
	if a.lit != nil && b.lit != nil {
		return IntLitBig(new(big.Int).Sub(a.lit, b.lit))
	}
	if b.lit != nil && b.lit.Sign() == 0 {
		return a
	}
	if a.s == b.s {
		return IntLit(0)
	}
	if b.lit != nil && b.lit.Sign() < 0 {
		return Add(a, IntLitBig(new(big.Int).Neg(b.lit)))
	}
	if b.lit != nil && a.op == "+" && len(a.args) == 2 && a.args[1].lit != nil {
		return Add(a.args[0], IntLitBig(new(big.Int).Sub(a.args[1].lit, b.lit)))
	}
	if b.lit != nil && a.op == "-" && len(a.args) == 2 && a.args[1].lit != nil {
		return Sub(a.args[0], IntLitBig(new(big.Int).Add(a.args[1].lit, b.lit)))
	}
	t := app(SInt, "-", a, b)
	if a.lo != nil && b.hi != nil {
		t.lo = new(big.Int).Sub(a.lo, b.hi)
	}
	if a.hi != nil && b.lo != nil {
		t.hi = new(big.Int).Sub(a.hi, b.lo)
	}
	return t
}

func Neg(a *Term) *Term { return Sub(IntLit(0), a) }

func Mul(a, b *Term) *Term {
	mustSort(a, SInt)
	mustSort(b, SInt)
	if a.lit != nil && b.lit != nil {
		return IntLitBig(new(big.Int).Mul(a.lit, b.lit))
	}
	if a.lit != nil {
		a, b = b, a
	}
	if b.lit != nil {
		if b.lit.Sign() == 0 {
			return IntLit(0)
		}
		if b.lit.Cmp(bigI(1)) == 0 {
			return a
		}
	}
	t := app(SInt, "*", a, b)
	if a.lo != nil && a.hi != nil && b.lo != nil && b.hi != nil {
		c := []*big.Int{new(big.Int).Mul(a.lo, b.lo), new(big.Int).Mul(a.lo, b.hi), new(big.Int).Mul(a.hi, b.lo), new(big.Int).Mul(a.hi, b.hi)}
		lo, hi := c[0], c[0]
		for _, x := range c[1:] {
			lo = minB(lo, x)
			hi = maxB(hi, x)
		}
		t.lo, t.hi = lo, hi
	}
	return t
}

// goQuoRem: Go's truncated division on literals
func goQuo(a, b *big.Int) *big.Int { return new(big.Int).Quo(a, b) }
func goRem(a, b *big.Int) *big.Int { return new(big.Int).Rem(a, b) }

// EDiv / EMod: SMT-LIB euclidean div/mod (floor for positive divisor).
func EDiv(a, b *Term) *Term {
	if a.lit != nil && b.lit != nil && b.lit.Sign() != 0 {
		q, _ := new(big.Int).DivMod(a.lit, b.lit, new(big.Int))
		return IntLitBig(q)
	}
	if b.lit != nil && b.lit.Cmp(bigI(1)) == 0 {
		return a
	}
	t := app(SInt, "div", a, b)
	if b.lit != nil && b.lit.Sign() > 0 {
		if a.lo != nil {
			q, _ := new(big.Int).DivMod(a.lo, b.lit, new(big.Int))
			t.lo = q
		}
		if a.hi != nil {
			q, _ := new(big.Int).DivMod(a.hi, b.lit, new(big.Int))
			t.hi = q
		}
	}
	return t
}

func EMod(a, b *Term) *Term {
	if a.lit != nil && b.lit != nil && b.lit.Sign() != 0 {
		_, m := new(big.Int).DivMod(a.lit, b.lit, new(big.Int))
		return IntLitBig(m)
	}
	if b.lit != nil && b.lit.Sign() > 0 {
		// already in range?
		if a.lo != nil && a.hi != nil && a.lo.Sign() >= 0 && a.hi.Cmp(b.lit) < 0 {
			return a
		}
		t := app(SInt, "mod", a, b)
		t.lo = bigI(0)
		t.hi = new(big.Int).Sub(b.lit, bigI(1))
		if a.lo != nil && a.lo.Sign() >= 0 && a.hi != nil {
			t.hi = minB(t.hi, a.hi)
		}
		return t
	}
	return app(SInt, "mod", a, b)
}

// GoDiv / GoRem: Go (truncating) semantics. Divisor assumed non-zero (checked separately).
func GoDiv(a, b *Term) *Term {
	if a.lit != nil && b.lit != nil && b.lit.Sign() != 0 {
		return IntLitBig(goQuo(a.lit, b.lit))
	}
	if a.lo != nil && a.lo.Sign() >= 0 && b.lo != nil && b.lo.Sign() > 0 {
		return EDiv(a, b)
	}
	// general: ite(a>=0, a div b, -((-a) div b))
	return Ite(Ge(a, IntLit(0)), EDiv(a, b), Neg(EDiv(Neg(a), b)))
}

func GoRem(a, b *Term) *Term {
	if a.lit != nil && b.lit != nil && b.lit.Sign() != 0 {
		return IntLitBig(goRem(a.lit, b.lit))
	}
	if a.lo != nil && a.lo.Sign() >= 0 && b.lo != nil && b.lo.Sign() > 0 {
		return EMod(a, b)
	}
	return Sub(a, Mul(GoDiv(a, b), b))
}

func cmp(op string, a, b *Term) *Term {
	mustSort(a, SInt)
	mustSort(b, SInt)
	if a.lit != nil && b.lit != nil {
		c := a.lit.Cmp(b.lit)
		switch op {
		case "<":
			return BoolLit(c < 0)
		case "<=":
			return BoolLit(c <= 0)
		case ">":
			return BoolLit(c > 0)
		case ">=":
			return BoolLit(c >= 0)
		}
	}
	// interval decisions
	switch op {
	case "<":
		if a.hi != nil && b.lo != nil && a.hi.Cmp(b.lo) < 0 {
			return TTrue
		}
		if a.lo != nil && b.hi != nil && a.lo.Cmp(b.hi) >= 0 {
			return TFalse
		}
	case "<=":
		if a.hi != nil && b.lo != nil && a.hi.Cmp(b.lo) <= 0 {
			return TTrue
		}
		if a.lo != nil && b.hi != nil && a.lo.Cmp(b.hi) > 0 {
			return TFalse
		}
	case ">":
		return cmp("<", b, a)
	case ">=":
		return cmp("<=", b, a)
	}
	if a.s == b.s {
		return BoolLit(op == "<=" || op == ">=")
	}
	return app(SBool, op, a, b)
}

func Lt(a, b *Term) *Term { return cmp("<", a, b) }
func Le(a, b *Term) *Term { return cmp("<=", a, b) }
func Gt(a, b *Term) *Term { return cmp(">", a, b) }
func Ge(a, b *Term) *Term { return cmp(">=", a, b) }

func InRange(t *Term, lo, hi *big.Int) *Term {
	return And(Le(IntLitBig(lo), t), Le(t, IntLitBig(hi)))
}

// knownIn reports whether interval info already proves lo<=t<=hi.
func knownIn(t *Term, lo, hi *big.Int) bool {
	return t.lo != nil && t.hi != nil && t.lo.Cmp(lo) >= 0 && t.hi.Cmp(hi) <= 0
}

// WithBounds returns a copy of t annotated with tighter bounds.
func WithBounds(t *Term, lo, hi *big.Int) *Term {
	c := *t
	if lo != nil && (c.lo == nil || lo.Cmp(c.lo) > 0) {
		c.lo = lo
	}
	if hi != nil && (c.hi == nil || hi.Cmp(c.hi) < 0) {
		c.hi = hi
	}
	return &c
}

// ---------- arrays ----------

func arrSorts(s string) (k, v string) {
	// "(Array K V)" with possibly nested V
	if !strings.HasPrefix(s, "(Array ") {
		panic("not an array sort: " + s)
	}
	body := s[len("(Array ") : len(s)-1]
	depth := 0
	for i := 0; i < len(body); i++ {
		switch body[i] {
		case '(':
			depth++
		case ')':
			depth--
		case ' ':
			if depth == 0 {
				return body[:i], body[i+1:]
			}
		}
	}
	panic("bad array sort: " + s)
}

func Select(a, i *Term) *Term {
	k, v := arrSorts(a.sort)
	mustSort(i, k)
	// select over store chain
	cur := a
	for cur.op == "store" {
		j := cur.args[1]
		if j.s == i.s {
			return cur.args[2]
		}
		if k == SInt && ((j.lit != nil && i.lit != nil) || disjoint(i, j)) {
			cur = cur.args[0]
			continue
		}
		break
	}
	if cur.op == "constarr" {
		return cur.args[0]
	}
	return app(v, "select", cur, i)
}

func Store(a, i, v *Term) *Term {
	k, vs := arrSorts(a.sort)
	mustSort(i, k)
	mustSort(v, vs)
	if a.op == "store" && a.args[1].s == i.s {
		a = a.args[0]
	}
	return app(a.sort, "store", a, i, v)
}

func ConstArr(sort string, v *Term) *Term {
	t := &Term{s: "((as const " + sort + ") " + v.s + ")", sort: sort, op: "constarr", args: []*Term{v}}
	return t
}

// ---------- strings ----------

func StrLen(a *Term) *Term {
	mustSort(a, SStr)
	if a.slit != nil {
		return IntLit(int64(len(*a.slit)))
	}
	t := app(SInt, "str.len", a)
	t.lo = bigI(0)
	t.hi = strMaxLen // platform fact, asserted for every symbolic string by assumeStr
	return t
}

var strMaxLen = new(big.Int).Lsh(big.NewInt(1), 48)

func StrConcat(a, b *Term) *Term {
	if a.slit != nil && b.slit != nil {
		return StrLit(*a.slit + *b.slit)
	}
	if a.slit != nil && *a.slit == "" {
		return b
	}
	if b.slit != nil && *b.slit == "" {
		return a
	}
	return app(SStr, "str.++", a, b)
}

func StrPrefixOf(p, s *Term) *Term {
	if p.slit != nil && s.slit != nil {
		return BoolLit(strings.HasPrefix(*s.slit, *p.slit))
	}
	return app(SBool, "str.prefixof", p, s)
}
func StrSuffixOf(p, s *Term) *Term {
	if p.slit != nil && s.slit != nil {
		return BoolLit(strings.HasSuffix(*s.slit, *p.slit))
	}
	return app(SBool, "str.suffixof", p, s)
}
func StrContains(s, sub *Term) *Term {
	if sub.slit != nil && s.slit != nil {
		return BoolLit(strings.Contains(*s.slit, *sub.slit))
	}
	return app(SBool, "str.contains", s, sub)
}
func StrSubstr(s, off, n *Term) *Term {
	if s.slit != nil && off.lit != nil && n.lit != nil && off.lit.IsInt64() && n.lit.IsInt64() {
		o, l := off.lit.Int64(), n.lit.Int64()
		if o >= 0 && l >= 0 && o+l <= int64(len(*s.slit)) {
			return StrLit((*s.slit)[o : o+l])
		}
	}
	return app(SStr, "str.substr", s, off, n)
}
func StrIndexOf(s, sub, from *Term) *Term {
	t := app(SInt, "str.indexof", s, sub, from)
	t.lo = bigI(-1)
	return t
}

// StrAtCode: byte value of s[i] (strings restricted to code points <= 255)
func StrAtCode(s, i *Term) *Term {
	if s.slit != nil && i.lit != nil && i.lit.IsInt64() {
		k := i.lit.Int64()
		if k >= 0 && k < int64(len(*s.slit)) {
			return IntLit(int64((*s.slit)[k]))
		}
	}
	t := app(SInt, "str.to_code", app(SStr, "str.at", s, i))
	t.lo = bigI(-1)
	t.hi = bigI(255)
	return t
}

func StrLtT(a, b *Term) *Term { return app(SBool, "str.<", a, b) }
func StrLeT(a, b *Term) *Term { return app(SBool, "str.<=", a, b) }

// ---------- generic application ----------

func App(sort, fn string, args ...*Term) *Term {
	if len(args) == 0 {
		return Var(fn, sort)
	}
	return app(sort, fn, args...)
}

// Forall builds a quantified formula; vars are (name sort) pairs.
func Forall(vars [][2]string, body *Term, patterns ...[]*Term) *Term {
	if body.isTrue() {
		return TTrue
	}
	var b strings.Builder
	b.WriteString("(forall (")
	for _, v := range vars {
		fmt.Fprintf(&b, "(%s %s)", v[0], v[1])
	}
	b.WriteString(") ")
	if len(patterns) > 0 {
		b.WriteString("(! ")
		b.WriteString(body.s)
		for _, p := range patterns {
			b.WriteString(" :pattern (")
			for i, x := range p {
				if i > 0 {
					b.WriteByte(' ')
				}
				b.WriteString(x.s)
			}
			b.WriteString(")")
		}
		b.WriteString(")")
	} else {
		b.WriteString(body.s)
	}
	b.WriteString(")")
	return &Term{s: b.String(), sort: SBool, op: "forall", args: []*Term{body}, qvars: vars}
}

// ExistsP is Exists with explicit triggers (used when the formula ends up negated).
func ExistsP(vars [][2]string, body *Term, patterns ...[]*Term) *Term {
	if body.isFalse() {
		return TFalse
	}
	if len(patterns) == 0 {
		return Exists(vars, body)
	}
	var b strings.Builder
	b.WriteString("(exists (")
	for _, v := range vars {
		fmt.Fprintf(&b, "(%s %s)", v[0], v[1])
	}
	b.WriteString(") (! ")
	b.WriteString(body.s)
	for _, p := range patterns {
		b.WriteString(" :pattern (")
		for i, x := range p {
			if i > 0 {
				b.WriteByte(' ')
			}
			b.WriteString(x.s)
		}
		b.WriteString(")")
	}
	b.WriteString("))")
	return &Term{s: b.String(), sort: SBool, op: "exists", args: []*Term{body}, qvars: vars}
}

func Exists(vars [][2]string, body *Term) *Term {
	if body.isFalse() {
		return TFalse
	}
	var b strings.Builder
	b.WriteString("(exists (")
	for _, v := range vars {
		fmt.Fprintf(&b, "(%s %s)", v[0], v[1])
	}
	b.WriteString(") ")
	b.WriteString(body.s)
	b.WriteString(")")
	return &Term{s: b.String(), sort: SBool, op: "exists", args: []*Term{body}, qvars: vars}
}

// pow2 returns 2^n as big.Int
func pow2(n uint) *big.Int { return new(big.Int).Lsh(bigI(1), n) }
