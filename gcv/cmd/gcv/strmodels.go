package main

// Models of strconv / fmt.Sprintf / string<->bytes built on the SMT theory of strings
// (str.from_int, str.to_int, str.++ ...). Part of the trusted base (DESIGN appendix C).

import (
	"go/constant"
	"go/token"
	"go/types"
	"strings"

	"golang.org/x/tools/go/ssa"
)

func strFromInt(t *Term) *Term { return app(SStr, "str.from_int", t) }
func strToInt(t *Term) *Term {
	r := app(SInt, "str.to_int", t)
	r.lo = bigI(-1)
	return r
}
func strFromCode(t *Term) *Term { return app(SStr, "str.from_code", t) }

// itoa: decimal rendering of a (possibly negative) integer
func itoaTerm(i *Term) *Term {
	if i.lo != nil && i.lo.Sign() >= 0 {
		return strFromInt(i)
	}
	return Ite(Ge(i, IntLit(0)), strFromInt(i), StrConcat(StrLit("-"), strFromInt(Neg(i))))
}

func (x *Exec) strModels(fn *ssa.Function, name string) modelFn {
	switch name {
	case "strconv.Itoa":
		return func(st *State, fr *Frame, fn *ssa.Function, args []*Val, pos token.Pos, cont retFn) {
			cont(st, scalar(x.bind(st, itoaTerm(args[0].T), "itoa"), types.Typ[types.String]))
		}
	case "strconv.FormatUint", "strconv.FormatInt":
		return func(st *State, fr *Frame, fn *ssa.Function, args []*Val, pos token.Pos, cont retFn) {
			if b := x.litOf(st, args[1].T); b != nil && b.Int64() == 10 {
				cont(st, scalar(x.bind(st, itoaTerm(args[0].T), "itoa"), types.Typ[types.String]))
				return
			}
			x.note("strconv.Format* with base != 10: uninterpreted injective rendering not modelled")
			cont(st, x.freshTyped(st, "fmtbase", types.Typ[types.String]))
		}
	case "strconv.Atoi":
		return func(st *State, fr *Frame, fn *ssa.Function, args []*Val, pos token.Pos, cont retFn) {
			cont(st, x.parseDecimal(st, fn, args[0].T, types.Typ[types.Int], 63, true))
		}
	case "strconv.ParseUint", "strconv.ParseInt":
		return func(st *State, fr *Frame, fn *ssa.Function, args []*Val, pos token.Pos, cont retFn) {
			base := x.litOf(st, args[1].T)
			bits := x.litOf(st, args[2].T)
			signed := name == "strconv.ParseInt"
			rt := fn.Signature.Results().At(0).Type()
			if base != nil && base.Int64() == 10 && bits != nil {
				nb := bits.Int64()
				if nb == 0 {
					nb = 64
				}
				if signed {
					nb--
				}
				cont(st, x.parseDecimal(st, fn, args[0].T, rt, uint(nb), signed))
				return
			}
			// other bases: result unconstrained except for the width on success
			x.note("strconv.Parse* with base != 10: value uninterpreted (only the bit-size bound on success is modelled)")
			v := x.freshTyped(st, "parsed", rt)
			e := x.freshTyped(st, "parseerr", fn.Signature.Results().At(1).Type())
			if bits != nil && bits.Int64() > 0 && bits.Int64() < 64 {
				lim := IntLitBig(pow2(uint(bits.Int64())))
				if signed {
					lim = IntLitBig(pow2(uint(bits.Int64() - 1)))
					x.assume(st, Implies(Eq(e.Tag, IntLit(0)), And(Lt(v.T, lim), Ge(v.T, Neg(lim)))), "Parse* bit size")
				} else {
					x.assume(st, Implies(Eq(e.Tag, IntLit(0)), Lt(v.T, lim)), "Parse* bit size")
				}
			}
			cont(st, &Val{K: kTuple, F: []*Val{v, e}, Typ: fn.Signature.Results()})
		}
	case "fmt.Sprintf":
		return func(st *State, fr *Frame, fn *ssa.Function, args []*Val, pos token.Pos, cont retFn) {
			if s, ok := x.sprintf(st, args); ok {
				cont(st, scalar(x.bind(st, s, "sprintf"), types.Typ[types.String]))
				return
			}
			x.note("fmt.Sprintf with an unmodelled format: result uninterpreted")
			cont(st, x.freshTyped(st, "sprintf", types.Typ[types.String]))
		}
	case "strings.Split", "strings.SplitN":
		return nil
	case "strings.ToLower", "strings.ToUpper", "strings.TrimSpace":
		return func(st *State, fr *Frame, fn *ssa.Function, args []*Val, pos token.Pos, cont retFn) {
			x.note(name + ": result uninterpreted")
			cont(st, x.freshTyped(st, "strfn", types.Typ[types.String]))
		}
	}
	return nil
}

// parseDecimal models strconv.Atoi / ParseInt(s,10,bits) / ParseUint(s,10,bits) for strings of
// decimal digits exactly; strings with a sign or other characters get an unconstrained outcome
// for signed parsers and an error for unsigned ones (over-approximation of the sign cases).
func (x *Exec) parseDecimal(st *State, fn *ssa.Function, s *Term, rt types.Type, valueBits uint, signed bool) *Val {
	maxV := IntLitBig(pow2(valueBits))
	v := x.freshTyped(st, "parsed", rt)
	e := x.freshTyped(st, "parseerr", fn.Signature.Results().At(1).Type())
	isNil := Eq(e.Tag, IntLit(0))
	if !signed {
		n := x.bind(st, strToInt(s), "toint")
		digits := Ge(n, IntLit(0)) // -1 when s is empty or has a non-digit
		// all-digit strings: success iff in range, value exact; everything else is rejected
		x.assume(st, Implies(And(digits, Lt(n, maxV)), And(isNil, Eq(v.T, n))), "parse decimal ok")
		x.assume(st, Implies(Or(Not(digits), Ge(n, maxV)), Not(isNil)), "parse decimal rejected")
		return &Val{K: kTuple, F: []*Val{v, e}, Typ: fn.Signature.Results()}
	}
	// signed: optional '+' or '-' followed by digits (underscores are only legal with base 0)
	first := app(SStr, "str.at", s, IntLit(0))
	neg := app(SBool, "=", first, StrLit("-"))
	hasSign := Or(neg, app(SBool, "=", first, StrLit("+")))
	rest := x.bind(st, Ite(hasSign, StrSubstr(s, IntLit(1), Sub(StrLen(s), IntLit(1))), s), "digits")
	n := x.bind(st, strToInt(rest), "toint")
	digits := Ge(n, IntLit(0))
	inRange := Ite(neg, Le(n, maxV), Lt(n, maxV))
	x.assume(st, Implies(And(digits, inRange), And(isNil, Eq(v.T, Ite(neg, Neg(n), n)))), "parse signed decimal ok")
	x.assume(st, Implies(Or(Not(digits), Not(inRange)), Not(isNil)), "parse signed decimal rejected")
	return &Val{K: kTuple, F: []*Val{v, e}, Typ: fn.Signature.Results()}
}

// sprintf renders fmt.Sprintf(format, args...) for a literal format made of text, %d, %0Nd, %s,
// %v (on strings/ints), %c and %%.
func (x *Exec) sprintf(st *State, args []*Val) (*Term, bool) {
	f := args[0].T
	if f.slit == nil {
		return nil, false
	}
	format := *f.slit
	var vals []*Val
	if len(args) > 1 && args[1].K == kSlice {
		n := x.litOf(st, args[1].Len)
		if n == nil {
			return nil, false
		}
		et := args[1].Typ.Underlying().(*types.Slice).Elem()
		for i := int64(0); i < n.Int64(); i++ {
			l := &Loc{Base: args[1].Arr, Root: x.elemRoot(et), Idx: Add(args[1].Off, IntLit(i)), T: et}
			iv := x.load(st, l, nil)
			if iv.Tag.lit == nil {
				return nil, false
			}
			dt := x.typeByID[iv.Tag.lit.Int64()]
			if dt == nil {
				return nil, false
			}
			vals = append(vals, x.unbox(st, iv, dt))
		}
	}
	out := StrLit("")
	ai := 0
	for i := 0; i < len(format); i++ {
		c := format[i]
		if c != '%' {
			j := i
			for j < len(format) && format[j] != '%' {
				j++
			}
			out = StrConcat(out, StrLit(format[i:j]))
			i = j - 1
			continue
		}
		i++
		if i >= len(format) {
			return nil, false
		}
		if format[i] == '%' {
			out = StrConcat(out, StrLit("%"))
			continue
		}
		pad := 0
		if format[i] == '0' {
			i++
			for i < len(format) && format[i] >= '0' && format[i] <= '9' {
				pad = pad*10 + int(format[i]-'0')
				i++
			}
		}
		if i >= len(format) || ai >= len(vals) {
			return nil, false
		}
		v := vals[ai]
		ai++
		switch format[i] {
		case 'd':
			if v.K != kScalar || v.T.sort != SInt {
				return nil, false
			}
			if pad == 0 {
				out = StrConcat(out, itoaTerm(v.T))
				continue
			}
			// zero padded: exact when the value is known to be non-negative with at most pad digits
			lim := IntLit(1)
			for k := 0; k < pad; k++ {
				lim = Mul(lim, IntLit(10))
			}
			// (a value with more digits is rendered with all its digits)
			if x.sess.CheckWith(Not(Ge(v.T, IntLit(0)))) != Unsat {
				return nil, false
			}
			padded := StrLit("")
			for k := pad - 1; k >= 0; k-- {
				d := IntLit(1)
				for q := 0; q < k; q++ {
					d = Mul(d, IntLit(10))
				}
				digit := EMod(EDiv(v.T, d), IntLit(10))
				padded = StrConcat(padded, strFromCode(Add(IntLit(48), digit)))
			}
			if x.sess.CheckWith(Not(Lt(v.T, lim))) == Unsat {
				out = StrConcat(out, padded)
			} else {
				out = StrConcat(out, Ite(Lt(v.T, lim), padded, itoaTerm(v.T)))
			}
		case 's', 'v':
			if v.K == kScalar && v.T.sort == SStr {
				out = StrConcat(out, v.T)
			} else if v.K == kScalar && v.T.sort == SInt && format[i] == 'v' {
				out = StrConcat(out, itoaTerm(v.T))
			} else {
				return nil, false
			}
		case 'c':
			if v.K != kScalar || v.T.sort != SInt {
				return nil, false
			}
			out = StrConcat(out, strFromCode(v.T))
		default:
			return nil, false
		}
	}
	return out, true
}

var _ = constant.MakeInt64
var _ = strings.Contains

// strLastIndex is strings.LastIndex(s, sep) as the function symbol strLastIndex with its defining
// axioms instantiated for this pair of arguments: the start of the last occurrence of sep in s,
// -1 if there is none. Program and specifications share the symbol.
func (x *Exec) strLastIndex(st *State, s, sep *Term) *Term {
	x.declareFun(st, "strLastIndex", []string{SStr, SStr}, SInt)
	r := app(SInt, "strLastIndex", s, sep)
	n, m := StrLen(s), StrLen(sep)
	x.assume(st, And(Ge(r, IntLit(-1)), Le(r, Sub(n, m))), "strings.LastIndex range")
	x.assume(st, Eq(Eq(r, IntLit(-1)), Not(StrContains(s, sep))), "strings.LastIndex absent")
	x.assume(st, Implies(Eq(m, IntLit(0)), Eq(r, n)), "strings.LastIndex empty separator")
	x.assume(st, Implies(And(Ge(r, IntLit(0)), Gt(m, IntLit(0))),
		And(Eq(StrSubstr(s, r, m), sep), Not(StrContains(StrSubstr(s, Add(r, IntLit(1)), Sub(n, Add(r, IntLit(1)))), sep)))), "strings.LastIndex last occurrence")
	return r
}
