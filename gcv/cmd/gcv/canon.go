package main

import (
	"regexp"
	"strings"
)

// canonCall maps the names under which a call may be counted or referred to in a contract
// (ncalls / lastarg / lastret / sink) to one canonical form, so that a clause does not depend on
// whether the callee happens to be called by contract (short, package-relative name) or as an
// opaque / extern function (fully qualified name) in a given run:
//
//	(*github.com/chrislusf/seaweedfs/weed/filer.Filer).FindEntry -> (*Filer).FindEntry
//	github.com/chrislusf/seaweedfs/weed/filer.LookupFn             -> LookupFn
//	(github.com/chrislusf/raft.Server).Do                         -> (raft.Server).Do
//	github.com/golang/protobuf/proto.Marshal                      -> proto.Marshal
//
// Names of this module lose their package, names of other modules keep the last path element.
func canonCall(name string) string {
	if strings.HasPrefix(name, "(") {
		end := strings.Index(name, ")")
		if end < 0 {
			return name
		}
		inner := name[1:end]
		star := ""
		if strings.HasPrefix(inner, "*") {
			star = "*"
			inner = inner[1:]
		}
		return "(" + star + canonQualified(inner) + ")" + name[end+1:]
	}
	if strings.ContainsAny(name, "( ") {
		return name
	}
	return canonQualified(name)
}

func canonQualified(q string) string {
	inMod := strings.HasPrefix(q, modPath)
	if i := strings.LastIndex(q, "/"); i >= 0 {
		q = q[i+1:]
	}
	if inMod {
		if i := strings.LastIndex(q, "."); i >= 0 {
			q = q[i+1:]
		}
	}
	return q
}

// reCallName finds the call names used in a clause: ncalls("f"), lastarg("f", i), lastret("f", i), called("f")
var reCallName = regexp.MustCompile(`\b(ncalls|lastarg|lastret|called)\("([^"]+)"`)
