package main

// Model of package time (wall clock only). A time.Time value is kept as its Go struct
// (wall, ext, loc); its meaning is the uninterpreted function tns(wall, ext) = nanoseconds since
// the Unix epoch. time.Now() returns a fresh value whose tns is the ghost constant NOW of the
// current path (every call in one activation sees the same instant: the functions verified
// here do not depend on time passing while they run; monotonic readings are ignored).
// Durations are int64 nanoseconds. Part of the trusted base (DESIGN appendix C).

import (
	"go/token"
	"go/types"

	"golang.org/x/tools/go/ssa"
)

func (x *Exec) tns(st *State, t *Val) *Term {
	x.declareFun(st, "tns", []string{SInt, SInt}, SInt)
	if t.K == kPtr {
		t = x.load(st, t.L, nil)
	}
	// time.Time{wall uint64, ext int64, loc *Location}
	return app(SInt, "tns", t.F[0].T, t.F[1].T)
}

func (x *Exec) nowTerm(st *State) *Term {
	return x.declare(st, "NOW", SInt)
}

// mkTime builds a fresh time.Time whose instant is ns.
func (x *Exec) mkTime(st *State, typ types.Type, ns *Term) *Val {
	v := x.freshTyped(st, "time", typ)
	x.assume(st, Eq(x.tns(st, v), ns), "time value")
	return v
}

func timeType(fn *ssa.Function, i int) types.Type { return fn.Signature.Results().At(i).Type() }

func (x *Exec) timeModels(fn *ssa.Function, name string) modelFn {
	switch name {
	case "time.Now":
		return func(st *State, fr *Frame, fn *ssa.Function, args []*Val, pos token.Pos, cont retFn) {
			x.note("time.Now() modelled as one ghost instant NOW per activation (wall clock only)")
			cont(st, x.mkTime(st, timeType(fn, 0), x.nowTerm(st)))
		}
	case "time.Unix":
		return func(st *State, fr *Frame, fn *ssa.Function, args []*Val, pos token.Pos, cont retFn) {
			ns := Add(Mul(args[0].T, IntLit(1000000000)), args[1].T)
			cont(st, x.mkTime(st, timeType(fn, 0), x.bind(st, ns, "unixns")))
		}
	case "(time.Time).Add":
		return func(st *State, fr *Frame, fn *ssa.Function, args []*Val, pos token.Pos, cont retFn) {
			cont(st, x.mkTime(st, timeType(fn, 0), x.bind(st, Add(x.tns(st, args[0]), args[1].T), "addns")))
		}
	case "(time.Time).Sub":
		return func(st *State, fr *Frame, fn *ssa.Function, args []*Val, pos token.Pos, cont retFn) {
			x.note("time.Time.Sub: saturation at the Duration limits not modelled")
			cont(st, scalar(x.bind(st, Sub(x.tns(st, args[0]), x.tns(st, args[1])), "subns"), timeType(fn, 0)))
		}
	case "(time.Time).Before":
		return func(st *State, fr *Frame, fn *ssa.Function, args []*Val, pos token.Pos, cont retFn) {
			cont(st, scalar(Lt(x.tns(st, args[0]), x.tns(st, args[1])), types.Typ[types.Bool]))
		}
	case "(time.Time).After":
		return func(st *State, fr *Frame, fn *ssa.Function, args []*Val, pos token.Pos, cont retFn) {
			cont(st, scalar(Gt(x.tns(st, args[0]), x.tns(st, args[1])), types.Typ[types.Bool]))
		}
	case "(time.Time).Equal":
		return func(st *State, fr *Frame, fn *ssa.Function, args []*Val, pos token.Pos, cont retFn) {
			cont(st, scalar(Eq(x.tns(st, args[0]), x.tns(st, args[1])), types.Typ[types.Bool]))
		}
	case "(time.Time).Unix":
		return func(st *State, fr *Frame, fn *ssa.Function, args []*Val, pos token.Pos, cont retFn) {
			cont(st, scalar(x.bind(st, EDiv(x.tns(st, args[0]), IntLit(1000000000)), "unixs"), timeType(fn, 0)))
		}
	case "(time.Time).UnixNano":
		return func(st *State, fr *Frame, fn *ssa.Function, args []*Val, pos token.Pos, cont retFn) {
			cont(st, scalar(x.tns(st, args[0]), timeType(fn, 0)))
		}
	case "time.Since":
		return func(st *State, fr *Frame, fn *ssa.Function, args []*Val, pos token.Pos, cont retFn) {
			cont(st, scalar(x.bind(st, Sub(x.nowTerm(st), x.tns(st, args[0])), "since"), timeType(fn, 0)))
		}
	case "(time.Time).IsZero":
		return func(st *State, fr *Frame, fn *ssa.Function, args []*Val, pos token.Pos, cont retFn) {
			// January 1, year 1, 00:00:00 UTC
			cont(st, scalar(Eq(x.tns(st, args[0]), Mul(IntLit(-62135596800), IntLit(1000000000))), types.Typ[types.Bool]))
		}
	case "(time.Time).Format":
		return func(st *State, fr *Frame, fn *ssa.Function, args []*Val, pos token.Pos, cont retFn) {
			// pure: an uninterpreted function of the instant and the layout (time zone ignored)
			x.declareFun(st, "timeFormat", []string{SInt, SStr}, SStr)
			cont(st, scalar(app(SStr, "timeFormat", x.tns(st, args[0]), args[1].T), types.Typ[types.String]))
		}
	case "(time.Duration).Seconds", "(time.Duration).Minutes", "(time.Duration).Hours":
		return nil
	}
	return nil
}
