package main

import (
	"go/types"
	"regexp"

	"golang.org/x/tools/go/ssa"
)

var reSimpleMod = regexp.MustCompile(`^(?:allof\()?(\w+)\.(\w+)\)?$`)

// staticModKeys translates the modifies clauses of a callee contract into heap keys when every
// target has the simple form <pointer parameter>.<field>: the field of all objects of that
// struct type (an over-approximation of "the field of that one object"). Used to havoc precisely
// at a loop head whose body calls the callee; any other form makes the caller havoc everything.
func staticModKeys(f *ssa.Function, cc *Contract) (map[string]string, bool) {
	out := map[string]string{}
	names := paramNames(f.Signature, f, cc)
	for _, cl := range cc.of("modifies", -1) {
		for _, part := range splitTopLevel(cl.Text) {
			m := reSimpleMod.FindStringSubmatch(part)
			if m == nil {
				return nil, false
			}
			idx := -1
			for i, n := range names {
				if n == m[1] {
					idx = i
				}
			}
			if idx < 0 || idx >= len(f.Params) {
				return nil, false
			}
			pt, ok := f.Params[idx].Type().Underlying().(*types.Pointer)
			if !ok {
				return nil, false
			}
			stt, ok := pt.Elem().Underlying().(*types.Struct)
			if !ok {
				return nil, false
			}
			found := false
			for i := 0; i < stt.NumFields(); i++ {
				fld := stt.Field(i)
				if fld.Name() != m[2] {
					continue
				}
				found = true
				for _, lf := range flatten(fld.Type()) {
					out["F|"+typeKey(pt.Elem())+"|."+fld.Name()+lf.Path] = lf.Sort
				}
			}
			if !found {
				return nil, false
			}
		}
	}
	return out, true
}

// isSmallLeaf: a short function that calls nothing (getters, predicates such as Attr.IsDirectory).
// Such functions are executed even where the contract under verification asks for module calls to
// be abstracted (opaquecalls): they cost nothing and havoc'ing their argument would lose state.
func isSmallLeaf(fn *ssa.Function) bool {
	n := 0
	for _, b := range fn.Blocks {
		for _, in := range b.Instrs {
			n++
			switch c := in.(type) {
			case ssa.CallInstruction:
				if _, isBuiltin := c.Common().Value.(*ssa.Builtin); !isBuiltin {
					return false
				}
			case *ssa.MakeClosure, *ssa.Go, *ssa.Select, *ssa.Send:
				return false
			}
		}
	}
	return n <= 40 && len(fn.Blocks) <= 8
}
