package storage

// Hand-written replay driver for property C05 (reloading a volume index reproduces lookups and
// counters). Injected with go test -overlay; never part of /repo. It drives the real NeedleMap
// through the NeedleMapper operations and then reloads the index file it wrote.

import (
	"os"
	"path/filepath"
	"testing"

	"github.com/chrislusf/seaweedfs/weed/storage/types"
)

func gcv05Open(t *testing.T, dir string) *os.File {
	f, err := os.OpenFile(filepath.Join(dir, "gcv05.idx"), os.O_RDWR|os.O_CREATE, 0644)
	if err != nil {
		t.Fatal(err)
	}
	return f
}

// A delete of a key that is not in the map appends a tombstone but counts nothing while running;
// obligation storage.doLoading$1#postcondition:ensures#9 says the reload must count nothing either.
func TestGcvReplayC05DeleteAbsentKey(t *testing.T) {
	dir := t.TempDir()
	f := gcv05Open(t, dir)
	nm := NewCompactNeedleMap(f)
	if err := nm.Put(types.NeedleId(1), types.ToOffset(8), types.Size(100)); err != nil {
		t.Fatal(err)
	}
	if err := nm.Delete(types.NeedleId(7), types.ToOffset(120)); err != nil { // key 7 was never put
		t.Fatal(err)
	}
	liveDel, liveDelBytes, liveFiles := nm.DeletedCount(), nm.DeletedSize(), nm.FileCount()
	f.Sync()
	f2 := gcv05Open(t, dir)
	nm2, err := LoadCompactNeedleMap(f2)
	if err != nil {
		t.Fatal(err)
	}
	t.Logf("live: files=%d deleted=%d deletedBytes=%d; reloaded: files=%d deleted=%d deletedBytes=%d",
		liveFiles, liveDel, liveDelBytes, nm2.FileCount(), nm2.DeletedCount(), nm2.DeletedSize())
	if nm2.DeletedCount() != liveDel || nm2.DeletedSize() != liveDelBytes || nm2.FileCount() != liveFiles {
		t.Fatalf("GCV-REPLAY-MISMATCH reload counters differ from the running counters")
	}
}

// An empty blob is put with a real offset and size 0; the running map serves it and counts a file;
// obligation storage.doLoading$1#postcondition:ensures#10 says the reload must replay it as a put.
func TestGcvReplayC05EmptyBlobPut(t *testing.T) {
	dir := t.TempDir()
	f := gcv05Open(t, dir)
	nm := NewCompactNeedleMap(f)
	if err := nm.Put(types.NeedleId(3), types.ToOffset(8), types.Size(0)); err != nil {
		t.Fatal(err)
	}
	_, liveOk := nm.Get(types.NeedleId(3))
	liveDel, liveFiles := nm.DeletedCount(), nm.FileCount()
	f.Sync()
	f2 := gcv05Open(t, dir)
	nm2, err := LoadCompactNeedleMap(f2)
	if err != nil {
		t.Fatal(err)
	}
	_, ok2 := nm2.Get(types.NeedleId(3))
	t.Logf("live: found=%v files=%d deleted=%d; reloaded: found=%v files=%d deleted=%d",
		liveOk, liveFiles, liveDel, ok2, nm2.FileCount(), nm2.DeletedCount())
	if ok2 != liveOk || nm2.FileCount() != liveFiles || nm2.DeletedCount() != liveDel {
		t.Fatalf("GCV-REPLAY-MISMATCH reload differs from the running map for an empty blob")
	}
}
