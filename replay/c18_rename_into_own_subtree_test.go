package weed_server

// Hand-written replay driver for property C18 (failing obligation
// server.(*FilerServer).AtomicRenameEntry#guard: a directory is not moved into itself or below
// itself). The real AtomicRenameEntry runs on a real filer with a leveldb store in a temp dir.
// Injected with go test -overlay; never part of /repo.
//
//   cd /repo && echo '{"Replace":{"/repo/weed/server/zz_gcv_c18_test.go":"/verif/replay/c18_rename_into_own_subtree_test.go"}}' > /tmp/ov.json
//   go test -overlay /tmp/ov.json -vet=off -timeout 120s -run TestGcvReplayC18 ./weed/server/

import (
	"context"
	"testing"
	"time"

	"github.com/chrislusf/seaweedfs/weed/filer"
	"github.com/chrislusf/seaweedfs/weed/filer/leveldb"
	"github.com/chrislusf/seaweedfs/weed/pb/filer_pb"
	"github.com/chrislusf/seaweedfs/weed/util"
)

type gcvC18Config map[string]string

func (c gcvC18Config) GetString(key string) string        { return c[key] }
func (c gcvC18Config) GetBool(key string) bool            { return false }
func (c gcvC18Config) GetInt(key string) int              { return 0 }
func (c gcvC18Config) GetStringSlice(key string) []string { return nil }
func (c gcvC18Config) SetDefault(key string, value interface{}) {}

func TestGcvReplayC18RenameIntoOwnSubtree(t *testing.T) {
	f := filer.NewFiler(nil, nil, "", 0, "", "", "", nil)
	store := &leveldb.LevelDBStore{}
	if err := store.Initialize(gcvC18Config{"dir": t.TempDir()}, ""); err != nil {
		t.Fatal(err)
	}
	f.SetStore(store)
	f.DirBucketsPath = "/buckets"
	fs := &FilerServer{filer: f, option: &FilerOption{}}
	ctx := context.Background()

	mk := func(p string, dir bool) {
		mode := uint32(0644)
		e := &filer.Entry{FullPath: util.FullPath(p), Attr: filer.Attr{Mode: 0644, Mtime: time.Now(), Crtime: time.Now()}}
		if dir {
			e.Attr.Mode = (1 << 31) | 0755
		}
		_ = mode
		if err := f.CreateEntry(ctx, e, false, false, nil); err != nil {
			t.Fatalf("create %s: %v", p, err)
		}
	}
	mk("/a", true)
	mk("/a/b", true)
	mk("/a/file1", false)
	mk("/a/b/file2", false)

	done := make(chan error, 1)
	go func() {
		_, err := fs.AtomicRenameEntry(ctx, &filer_pb.AtomicRenameEntryRequest{
			OldDirectory: "/", OldName: "a", NewDirectory: "/a/b", NewName: "a",
		})
		done <- err
	}()
	var err error
	select {
	case err = <-done:
	case <-time.After(20 * time.Second):
		t.Fatalf("renaming /a to /a/b/a does not return (the move chases its own tail)")
	}
	t.Logf("AtomicRenameEntry answered: %v", err)
	if err == nil {
		// the rename must be refused; show what is left of the tree
		var names []string
		for _, p := range []string{"/a", "/a/b", "/a/file1", "/a/b/file2", "/a/b/a", "/a/b/a/file1"} {
			if e, ferr := f.FindEntry(ctx, util.FullPath(p)); ferr == nil && e != nil {
				names = append(names, p)
			}
		}
		t.Fatalf("renaming the directory /a into its own descendant /a/b was accepted; entries that still resolve: %v", names)
	}
}
