package topology

// Hand-written replay driver for property C14 (failing obligation
// topology.(*Topology).vacuumOneVolumeLayout#guard:sink#..@(*Topology).batchVacuumVolumeCleanup /
// batchVacuumVolumeCleanup#postcondition: a volume taken out of the writable set for a compaction
// is offered back to it when the compaction is abandoned). The real Topology.Vacuum runs against an
// in-process volume server (gRPC) whose compaction fails. Injected with go test -overlay.
//
//   cd /repo && echo '{"Replace":{"/repo/weed/topology/zz_gcv_c14_test.go":"/verif/replay/c14_failed_compaction_unwritable_test.go"}}' > /tmp/ov.json
//   go test -overlay /tmp/ov.json -vet=off -timeout 120s -run TestGcvReplayC14 ./weed/topology/

import (
	"context"
	"fmt"
	"net"
	"testing"

	"google.golang.org/grpc"

	"github.com/chrislusf/seaweedfs/weed/pb/master_pb"
	"github.com/chrislusf/seaweedfs/weed/pb/volume_server_pb"
	"github.com/chrislusf/seaweedfs/weed/sequence"
	"github.com/chrislusf/seaweedfs/weed/storage/needle"
	"github.com/chrislusf/seaweedfs/weed/storage/super_block"
	"github.com/chrislusf/seaweedfs/weed/storage/types"
)

type c14VolumeServer struct {
	volume_server_pb.UnimplementedVolumeServerServer
	compacts, commits, cleanups int
}

func (s *c14VolumeServer) VacuumVolumeCheck(ctx context.Context, req *volume_server_pb.VacuumVolumeCheckRequest) (*volume_server_pb.VacuumVolumeCheckResponse, error) {
	return &volume_server_pb.VacuumVolumeCheckResponse{GarbageRatio: 0.9}, nil
}
func (s *c14VolumeServer) VacuumVolumeCompact(ctx context.Context, req *volume_server_pb.VacuumVolumeCompactRequest) (*volume_server_pb.VacuumVolumeCompactResponse, error) {
	s.compacts++
	return nil, fmt.Errorf("disk full")
}
func (s *c14VolumeServer) VacuumVolumeCommit(ctx context.Context, req *volume_server_pb.VacuumVolumeCommitRequest) (*volume_server_pb.VacuumVolumeCommitResponse, error) {
	s.commits++
	return &volume_server_pb.VacuumVolumeCommitResponse{}, nil
}
func (s *c14VolumeServer) VacuumVolumeCleanup(ctx context.Context, req *volume_server_pb.VacuumVolumeCleanupRequest) (*volume_server_pb.VacuumVolumeCleanupResponse, error) {
	s.cleanups++
	return &volume_server_pb.VacuumVolumeCleanupResponse{}, nil
}

func TestGcvReplayC14FailedCompactionLeavesVolumeWritable(t *testing.T) {
	// the volume server's gRPC port is its HTTP port + 10000
	lis, err := net.Listen("tcp", "127.0.0.1:0")
	if err != nil {
		t.Fatal(err)
	}
	grpcPort := lis.Addr().(*net.TCPAddr).Port
	if grpcPort <= 10000 {
		t.Skip("ephemeral port too low for the port+10000 convention")
	}
	fake := &c14VolumeServer{}
	srv := grpc.NewServer()
	volume_server_pb.RegisterVolumeServerServer(srv, fake)
	go srv.Serve(lis)
	defer srv.Stop()

	topo := NewTopology("weedfs", sequence.NewMemorySequencer(), 32*1024, 5, false)
	dn := topo.GetOrCreateDataCenter("dc1").GetOrCreateRack("rack1").GetOrCreateDataNode("127.0.0.1", grpcPort-10000, "127.0.0.1", map[string]uint32{"": 10})
	volumes := []*master_pb.VolumeInformationMessage{{
		Id: 1, Size: 25432, FileCount: 100, DeleteCount: 90, DeletedByteCount: 20000, Version: uint32(needle.CurrentVersion),
	}}
	topo.SyncDataNodeRegistration(volumes, dn)

	rp, _ := super_block.NewReplicaPlacementFromString("000")
	vl := topo.GetVolumeLayout("", rp, needle.EMPTY_TTL, types.HardDriveType)
	writable := func() bool {
		vl.accessLock.RLock()
		defer vl.accessLock.RUnlock()
		for _, v := range vl.writables {
			if v == 1 {
				return true
			}
		}
		return false
	}
	if !writable() {
		t.Fatalf("volume 1 is not writable before the vacuum round")
	}

	topo.Vacuum(grpc.WithInsecure(), 0.3, 0)

	if fake.compacts != 1 || fake.commits != 0 || fake.cleanups != 1 {
		t.Fatalf("expected one failed compaction followed by a cleanup, got compacts=%d commits=%d cleanups=%d", fake.compacts, fake.commits, fake.cleanups)
	}
	// nothing changed on the volume server: the volume must be writable exactly as before
	if !writable() {
		// and the next full heartbeat does not bring it back either
		topo.SyncDataNodeRegistration(volumes, dn)
		t.Fatalf("after a vacuum round whose compaction failed (nothing was committed) volume 1 is no longer writable; writable again after the next full heartbeat: %v", writable())
	}
}
