package replication

// Hand-written replay driver for property C36 (failing obligation
// replication.(*Replicator).Replicate#postcondition:ensures#1): a recording sink is driven by the real
// Replicator.Replicate with a change in a sibling directory whose name merely starts with the
// name of the source directory. Injected with go test -overlay; never part of /repo.
//
//   cd /repo && echo '{"Replace":{"/repo/weed/replication/zz_gcv_c36_test.go":"/verif/replay/c36_sibling_dir_test.go"}}' > /tmp/ov.json
//   go test -overlay /tmp/ov.json -vet=off -timeout 120s -run TestGcvReplayC36 ./weed/replication/

import (
	"context"
	"testing"

	"github.com/chrislusf/seaweedfs/weed/pb/filer_pb"
	"github.com/chrislusf/seaweedfs/weed/replication/source"
	"github.com/chrislusf/seaweedfs/weed/util"
)

type gcv36Sink struct {
	dir   string
	calls []string
}

func (s *gcv36Sink) GetName() string                                          { return "recording" }
func (s *gcv36Sink) Initialize(configuration util.Configuration, prefix string) error { return nil }
func (s *gcv36Sink) DeleteEntry(key string, isDirectory, deleteIncludeChunks bool, signatures []int32) error {
	s.calls = append(s.calls, "delete "+key)
	return nil
}
func (s *gcv36Sink) CreateEntry(key string, entry *filer_pb.Entry, signatures []int32) error {
	s.calls = append(s.calls, "create "+key)
	return nil
}
func (s *gcv36Sink) UpdateEntry(key string, oldEntry *filer_pb.Entry, newParentPath string, newEntry *filer_pb.Entry, deleteIncludeChunks bool, signatures []int32) (bool, error) {
	s.calls = append(s.calls, "update "+key)
	return true, nil
}
func (s *gcv36Sink) GetSinkToDirectory() string            { return s.dir }
func (s *gcv36Sink) SetSourceFiler(src *source.FilerSource) {}
func (s *gcv36Sink) IsIncremental() bool                    { return false }

func TestGcvReplayC36SiblingDirectory(t *testing.T) {
	snk := &gcv36Sink{dir: "/backup"}
	r := &Replicator{sink: snk, source: &source.FilerSource{Dir: "/data"}}
	entry := &filer_pb.Entry{Name: "f", Attributes: &filer_pb.FuseAttributes{}}
	// inside the source directory: mirrored under the target directory
	if err := r.Replicate(context.Background(), "/data/f", &filer_pb.EventNotification{NewEntry: entry}); err != nil {
		t.Fatal(err)
	}
	if len(snk.calls) != 1 || snk.calls[0] != "create /backup/f" {
		t.Fatalf("in-scope create: sink calls %v", snk.calls)
	}
	snk.calls = nil
	// a sibling directory /data2 is outside /data: nothing may reach the sink
	if err := r.Replicate(context.Background(), "/data2/f", &filer_pb.EventNotification{NewEntry: entry}); err != nil {
		t.Fatal(err)
	}
	if len(snk.calls) != 0 {
		t.Fatalf("change in sibling directory /data2 of source /data reached the sink: %v", snk.calls)
	}
}
