package s3api

// Hand-written replay driver for property C28 (failing obligation
// s3api.(*S3ApiServer).PutObjectPartHandler#guard:sink#1@(*S3ApiServer).putToFiler: a streaming-signed
// body is never stored undecoded). A part of a multipart upload is sent streaming-signed
// (x-amz-content-sha256: STREAMING-AWS4-HMAC-SHA256-PAYLOAD, aws-chunked framing) to a gateway
// that runs without identities. The real PutObjectPartHandler runs against an in-process filer
// (HTTP for the data, gRPC for the upload directory lookup). Injected with go test -overlay.
//
//   cd /repo && echo '{"Replace":{"/repo/weed/s3api/zz_gcv_c28b_test.go":"/verif/replay/c28_streaming_part_test.go"}}' > /tmp/ov.json
//   go test -overlay /tmp/ov.json -vet=off -timeout 120s -run TestGcvReplayC28Streaming ./weed/s3api/

import (
	"bytes"
	"context"
	"crypto/sha256"
	"encoding/hex"
	"fmt"
	"io/ioutil"
	"net"
	"net/http"
	"net/http/httptest"
	"strings"
	"sync"
	"testing"
	"time"

	"github.com/gorilla/mux"
	"google.golang.org/grpc"

	"github.com/chrislusf/seaweedfs/weed/pb/filer_pb"
)

type gcvC28sFiler struct {
	mu     sync.Mutex
	stored map[string][]byte // url path -> bytes stored
}

func (f *gcvC28sFiler) ServeHTTP(w http.ResponseWriter, r *http.Request) {
	if r.Method != http.MethodPut && r.Method != http.MethodPost {
		http.Error(w, "unexpected method", http.StatusMethodNotAllowed)
		return
	}
	data, err := ioutil.ReadAll(r.Body)
	if err != nil {
		http.Error(w, err.Error(), http.StatusInternalServerError)
		return
	}
	f.mu.Lock()
	f.stored[r.URL.Path] = data
	f.mu.Unlock()
	w.Header().Set("Content-Type", "application/json")
	w.WriteHeader(http.StatusCreated)
	fmt.Fprintf(w, `{"name":%q,"size":%d}`, r.URL.Path[strings.LastIndex(r.URL.Path, "/")+1:], len(data))
}

const (
	gcvC28sSecret = "demoSecretKey"
	gcvC28sSeed   = "4f232c4386841ef735655705268965c44a0e4690baa4adea153f7db9fa80a0a9"
	gcvC28sRegion = "us-east-1"
)

var gcvC28sDate = time.Date(2020, 9, 1, 12, 0, 0, 0, time.UTC)

// frames payload the way an AWS SDK does for a streaming-signed upload:
//
//	<hex size>;chunk-signature=<sig>\r\n<data>\r\n ... 0;chunk-signature=<sig>\r\n\r\n
func gcvC28sAwsChunked(payload []byte, chunkSize int) []byte {
	var out bytes.Buffer
	prev := gcvC28sSeed
	emit := func(data []byte) {
		sum := sha256.Sum256(data)
		sig := getChunkSignature(gcvC28sSecret, prev, gcvC28sRegion, gcvC28sDate, hex.EncodeToString(sum[:]))
		prev = sig
		fmt.Fprintf(&out, "%x;chunk-signature=%s\r\n", len(data), sig)
		out.Write(data)
		out.WriteString("\r\n")
	}
	for start := 0; start < len(payload); start += chunkSize {
		end := start + chunkSize
		if end > len(payload) {
			end = len(payload)
		}
		emit(payload[start:end])
	}
	emit(nil)
	return out.Bytes()
}

func gcvC28sPayload(n int) []byte {
	payload := make([]byte, n)
	for i := range payload {
		payload[i] = byte('a' + i%23)
	}
	return payload
}


type gcvC28sGrpcFiler struct {
	filer_pb.UnimplementedSeaweedFilerServer
}

func (f *gcvC28sGrpcFiler) LookupDirectoryEntry(ctx context.Context, req *filer_pb.LookupDirectoryEntryRequest) (*filer_pb.LookupDirectoryEntryResponse, error) {
	return &filer_pb.LookupDirectoryEntryResponse{Entry: &filer_pb.Entry{Name: req.Name, IsDirectory: true, Attributes: &filer_pb.FuseAttributes{}}}, nil
}

func TestGcvReplayC28StreamingSignedPartWithoutIdentities(t *testing.T) {
	httpFiler := &gcvC28sFiler{stored: make(map[string][]byte)}
	srv := httptest.NewServer(httpFiler)
	defer srv.Close()
	lis, err := net.Listen("tcp", "127.0.0.1:0")
	if err != nil {
		t.Fatal(err)
	}
	gsrv := grpc.NewServer()
	filer_pb.RegisterSeaweedFilerServer(gsrv, &gcvC28sGrpcFiler{})
	go gsrv.Serve(lis)
	defer gsrv.Stop()

	s3a := &S3ApiServer{
		option: &S3ApiServerOption{
			Filer: strings.TrimPrefix(srv.URL, "http://"), FilerGrpcAddress: lis.Addr().String(),
			BucketsPath: "/buckets", GrpcDialOption: grpc.WithInsecure(),
		},
		iam: &IdentityAccessManagement{}, // no identities configured
	}

	payload := gcvC28sPayload(150000)
	body := gcvC28sAwsChunked(payload, 65536)
	req := httptest.NewRequest(http.MethodPut, "http://s3.example.com/bkt/big.bin?partNumber=1&uploadId=u1", bytes.NewReader(body))
	for k, v := range map[string]string{
		"Authorization": "AWS4-HMAC-SHA256 Credential=demo/20200901/us-east-1/s3/aws4_request, " +
			"SignedHeaders=content-encoding;host;x-amz-content-sha256;x-amz-date;x-amz-decoded-content-length, " +
			"Signature=" + gcvC28sSeed,
		"X-Amz-Content-Sha256":         streamingContentSHA256,
		"X-Amz-Date":                   gcvC28sDate.Format(iso8601Format),
		"X-Amz-Decoded-Content-Length": fmt.Sprint(len(payload)),
		"Content-Encoding":             "aws-chunked",
	} {
		req.Header.Set(k, v)
	}
	req = mux.SetURLVars(req, map[string]string{"bucket": "bkt", "object": "big.bin"})
	rec := httptest.NewRecorder()
	s3a.PutObjectPartHandler(rec, req)

	httpFiler.mu.Lock()
	got, stored := httpFiler.stored[s3a.genUploadsFolder("bkt")+"/u1/0001.part"]
	httpFiler.mu.Unlock()
	if rec.Code != http.StatusOK {
		if stored {
			t.Fatalf("part upload answered %d but %d bytes were stored", rec.Code, len(got))
		}
		return // refusing a body that cannot be decoded is fine as long as nothing is stored
	}
	if !stored {
		t.Fatalf("part upload answered 200 but nothing was stored (stored keys: %v)", len(httpFiler.stored))
	}
	if !bytes.Equal(got, payload) {
		head := got
		if len(head) > 90 {
			head = head[:90]
		}
		t.Fatalf("part upload answered 200 (ETag %s) but the part does not hold the written bytes: wrote %d bytes, stored %d bytes starting with %q",
			rec.Header().Get("ETag"), len(payload), len(got), head)
	}
}

var _ = ioutil.ReadAll
var _ = sha256.New
var _ = hex.EncodeToString
var _ = time.Now
var _ sync.Mutex
