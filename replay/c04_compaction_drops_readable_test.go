package storage

// Hand-written replay driver for property C04 (open findings, failing obligations
// storage.(*VolumeFileScanner4Vacuum).VisitNeedle#postcondition:ensures#3 / #4 and the same clauses of
// storage.copyDataBasedOnIndexFile$1): blobs that a read returns right before a compaction are gone
// right after it commits. Injected with go test -overlay; never part of /repo.
//
//   cd /repo && echo '{"Replace":{"/repo/weed/storage/zz_gcv_c04_test.go":"/verif/replay/c04_compaction_drops_readable_test.go"}}' > /tmp/ov.json
//   go test -overlay /tmp/ov.json -vet=off -timeout 120s -run TestGcvReplayC04 ./weed/storage/

import (
	"io/ioutil"
	"os"
	"testing"
	"time"

	"github.com/chrislusf/seaweedfs/weed/storage/needle"
	"github.com/chrislusf/seaweedfs/weed/storage/super_block"
	"github.com/chrislusf/seaweedfs/weed/storage/types"
)

func gcv04Needle(id uint64, data string, lastModified uint64, ttl string) *needle.Needle {
	n := new(needle.Needle)
	n.Id = types.Uint64ToNeedleId(id)
	n.Cookie = types.Cookie(0x4321)
	n.Data = []byte(data)
	n.Checksum = needle.NewCRC(n.Data)
	n.LastModified = lastModified
	n.SetHasLastModifiedDate()
	if ttl != "" {
		n.Ttl, _ = needle.ReadTTL(ttl)
		n.SetHasTtl()
	}
	return n
}

func gcv04Run(t *testing.T, compact func(v *Volume) error) {
	dir, err := ioutil.TempDir("", "gcv04")
	if err != nil {
		t.Fatal(err)
	}
	defer os.RemoveAll(dir)
	// a volume without TTL
	v, err := NewVolume(dir, dir, "", 1, NeedleMapInMemory, &super_block.ReplicaPlacement{}, needle.EMPTY_TTL, 0, 0)
	if err != nil {
		t.Fatal(err)
	}
	defer v.Close()
	now := uint64(time.Now().Unix())
	for _, n := range []*needle.Needle{
		gcv04Needle(1, "plain", now, ""),
		gcv04Needle(2, "", now, ""),                // an empty blob
		gcv04Needle(3, "one hour to live", now, "1h"), // a fresh blob with its own TTL
		gcv04Needle(4, "garbage", now, ""),
	} {
		if _, _, _, err := v.writeNeedle2(n, false); err != nil {
			t.Fatalf("write %d: %v", n.Id, err)
		}
	}
	if _, err := v.deleteNeedle2(gcv04Needle(4, "", now, "")); err != nil {
		t.Fatal(err)
	}
	readable := func(id uint64) bool {
		n := new(needle.Needle)
		n.Id = types.Uint64ToNeedleId(id)
		_, err := v.readNeedle(n, nil)
		return err == nil
	}
	for id := uint64(1); id <= 3; id++ {
		if !readable(id) {
			t.Fatalf("setup: blob %d is not readable before the compaction", id)
		}
	}
	if err := compact(v); err != nil {
		t.Fatalf("compact: %v", err)
	}
	if err := v.CommitCompact(); err != nil {
		t.Fatalf("commit: %v", err)
	}
	for id, what := range map[uint64]string{1: "plain blob", 2: "empty blob", 3: "unexpired blob with a 1h TTL on a volume without TTL"} {
		if !readable(id) {
			t.Errorf("%s (id %d) was readable before the compaction and is gone after it", what, id)
		}
	}
	if readable(4) {
		t.Errorf("deleted blob 4 is readable after the compaction")
	}
}

func TestGcvReplayC04Compact(t *testing.T) {
	gcv04Run(t, func(v *Volume) error { return v.Compact(0, 0) })
}

func TestGcvReplayC04Compact2(t *testing.T) {
	gcv04Run(t, func(v *Volume) error { return v.Compact2(0, 0) })
}
