package filer

// Hand-written replay driver for property C19 (failing obligation
// filer.(*FilerStoreWrapper).prefixFilterEntries#invariant-preserved:loop0.loop0.invariant#1): a
// prefixed listing over a store without native prefix support (in-memory stand-in that answers
// ErrUnsupportedListDirectoryPrefixed, as the SQL / redis stores do) where two consecutive store
// pages hold no entry with the prefix. Injected with go test -overlay; never part of /repo.
//
//   cd /repo && echo '{"Replace":{"/repo/weed/filer/zz_gcv_c19_test.go":"/verif/replay/c19_prefix_refill_test.go"}}' > /tmp/ov.json
//   go test -overlay /tmp/ov.json -vet=off -timeout 120s -run TestGcvReplayC19 ./weed/filer/

import (
	"context"

	"sort"
	"strings"
	"sync"
	"testing"
	"time"

	"github.com/chrislusf/seaweedfs/weed/pb/filer_pb"
	"github.com/chrislusf/seaweedfs/weed/util"
)

type gcv19Store struct {
	mu      sync.Mutex
	entries map[string][]byte
	kv      map[string][]byte
}

func newGcv19StoreCompat() *gcv19Store {
	return &gcv19Store{entries: make(map[string][]byte), kv: make(map[string][]byte)}
}

func (s *gcv19Store) GetName() string { return "gcv19_memory" }
func (s *gcv19Store) Initialize(configuration util.Configuration, prefix string) error {
	return nil
}
func (s *gcv19Store) InsertEntry(ctx context.Context, entry *Entry) error {
	blob, err := entry.EncodeAttributesAndChunks()
	if err != nil {
		return err
	}
	s.mu.Lock()
	defer s.mu.Unlock()
	s.entries[string(entry.FullPath)] = blob
	return nil
}
func (s *gcv19Store) UpdateEntry(ctx context.Context, entry *Entry) error {
	return s.InsertEntry(ctx, entry)
}
func (s *gcv19Store) FindEntry(ctx context.Context, p util.FullPath) (*Entry, error) {
	s.mu.Lock()
	blob, found := s.entries[string(p)]
	s.mu.Unlock()
	if !found {
		return nil, filer_pb.ErrNotFound
	}
	entry := &Entry{FullPath: p}
	if err := entry.DecodeAttributesAndChunks(blob); err != nil {
		return nil, err
	}
	return entry, nil
}
func (s *gcv19Store) DeleteEntry(ctx context.Context, p util.FullPath) error {
	s.mu.Lock()
	defer s.mu.Unlock()
	delete(s.entries, string(p))
	return nil
}
func (s *gcv19Store) DeleteFolderChildren(ctx context.Context, p util.FullPath) error {
	s.mu.Lock()
	defer s.mu.Unlock()
	for path := range s.entries {
		if dir, _ := util.FullPath(path).DirAndName(); dir == string(p) {
			delete(s.entries, path)
		}
	}
	return nil
}
func (s *gcv19Store) ListDirectoryEntries(ctx context.Context, dirPath util.FullPath, startFileName string, includeStartFile bool, limit int64, eachEntryFunc ListEachEntryFunc) (lastFileName string, err error) {
	s.mu.Lock()
	var names []string
	for path := range s.entries {
		dir, name := util.FullPath(path).DirAndName()
		if dir != string(dirPath) || path == "/" {
			continue
		}
		if name < startFileName || (name == startFileName && !includeStartFile) {
			continue
		}
		names = append(names, name)
	}
	s.mu.Unlock()
	sort.Strings(names)
	for i, name := range names {
		if int64(i) >= limit {
			break
		}
		entry, findErr := s.FindEntry(ctx, dirPath.Child(name))
		if findErr != nil {
			continue
		}
		lastFileName = name
		if !eachEntryFunc(entry) {
			break
		}
	}
	return lastFileName, nil
}
func (s *gcv19Store) ListDirectoryPrefixedEntries(ctx context.Context, dirPath util.FullPath, startFileName string, includeStartFile bool, limit int64, prefix string, eachEntryFunc ListEachEntryFunc) (string, error) {
	return "", ErrUnsupportedListDirectoryPrefixed
}
func (s *gcv19Store) BeginTransaction(ctx context.Context) (context.Context, error) {
	return ctx, nil
}
func (s *gcv19Store) CommitTransaction(ctx context.Context) error   { return nil }
func (s *gcv19Store) RollbackTransaction(ctx context.Context) error { return nil }
func (s *gcv19Store) KvPut(ctx context.Context, key []byte, value []byte) error {
	s.mu.Lock()
	defer s.mu.Unlock()
	s.kv[string(key)] = append([]byte(nil), value...)
	return nil
}
func (s *gcv19Store) KvGet(ctx context.Context, key []byte) ([]byte, error) {
	s.mu.Lock()
	defer s.mu.Unlock()
	value, found := s.kv[string(key)]
	if !found {
		return nil, ErrKvNotFound
	}
	return value, nil
}
func (s *gcv19Store) KvDelete(ctx context.Context, key []byte) error {
	s.mu.Lock()
	defer s.mu.Unlock()
	delete(s.kv, string(key))
	return nil
}
func (s *gcv19Store) Shutdown() {}


func TestGcvReplayC19PrefixListingOverSeveralPages(t *testing.T) {
	store := newGcv19StoreCompat()
	ctx := context.Background()
	for _, name := range []string{"a1", "a2", "a3", "a4", "b1", "b2"} {
		store.InsertEntry(ctx, &Entry{FullPath: util.FullPath("/dir/" + name), Attr: Attr{Mode: 0644}})
	}
	fsw := NewFilerStoreWrapper(store)
	var got []string
	done := make(chan error, 1)
	go func() {
		_, err := fsw.ListDirectoryPrefixedEntries(ctx, util.FullPath("/dir"), "", false, 2, "b", func(e *Entry) bool {
			got = append(got, e.Name())
			return true
		})
		done <- err
	}()
	select {
	case err := <-done:
		if err != nil {
			t.Fatal(err)
		}
	case <-time.After(3 * time.Second):
		t.Fatalf("listing /dir with prefix b (page size 2, pages a1 a2 | a3 a4 | b1 b2) does not terminate: the second refill starts again after a2")
	}
	if strings.Join(got, " ") != "b1 b2" {
		t.Fatalf("listed %v, want [b1 b2]", got)
	}
}
