package super_block

// Hand-written replay driver for property C08 (obligation ReadSuperBlock#postcondition: the extra
// metadata announced by the header is read from the file). Injected with go test -overlay into
// weed/storage/super_block; never part of /repo.

import (
	"os"
	"path/filepath"
	"testing"

	"github.com/chrislusf/seaweedfs/weed/pb/master_pb"
	"github.com/chrislusf/seaweedfs/weed/storage/backend"
	"github.com/chrislusf/seaweedfs/weed/storage/needle"
)

func TestGcvC08SuperBlockExtraRoundTrip(t *testing.T) {
	dir := t.TempDir()
	f, err := os.OpenFile(filepath.Join(dir, "x.dat"), os.O_RDWR|os.O_CREATE|os.O_TRUNC, 0644)
	if err != nil {
		t.Fatal(err)
	}
	df := backend.NewDiskFile(f)
	defer df.Close()
	rp, _ := NewReplicaPlacementFromString("001")
	sb := &SuperBlock{
		Version:          needle.Version3,
		ReplicaPlacement: rp,
		Ttl:              needle.EMPTY_TTL,
		Extra: &master_pb.SuperBlockExtra{ErasureCoding: &master_pb.SuperBlockExtra_ErasureCoding{
			Data: 10, Parity: 4, VolumeIds: []uint32{7, 8, 9},
		}},
	}
	if _, err := df.WriteAt(sb.Bytes(), 0); err != nil {
		t.Fatal(err)
	}
	got, err := ReadSuperBlock(df)
	if err != nil {
		t.Fatalf("a super block written with extra metadata cannot be read back: %v", err)
	}
	if got.Extra == nil || got.Extra.ErasureCoding == nil || got.Extra.ErasureCoding.Data != 10 ||
		got.Extra.ErasureCoding.Parity != 4 || len(got.Extra.ErasureCoding.VolumeIds) != 3 {
		t.Fatalf("extra metadata read back as %+v, want data=10 parity=4 volume ids [7 8 9]", got.Extra)
	}
}
