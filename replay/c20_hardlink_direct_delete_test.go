// place in: weed/filer
//
// Demo for mutation C20/m1: recursive folder deletion must not delete the chunk data of a
// hard-linked child while another link to the same data lives outside of the deleted folder.
//
// The test drives the real Filer on an in-memory FilerStore. Chunk deletions are observed at both
// sinks:
//   - the deletion queue (Filer.fileIdDeletionQueue, no consumer goroutine is started), and
//   - the direct-delete path: DirectDeleteChunks -> BatchDelete gRPC to a fake volume server that
//     is served over an in-memory bufconn pipe (no network involved).
package filer

import (
	"context"
	"net"
	"os"
	"reflect"
	"sort"
	"sync"
	"testing"
	"time"
	"unsafe"

	"google.golang.org/grpc"
	"google.golang.org/grpc/test/bufconn"

	"github.com/chrislusf/seaweedfs/weed/pb"
	"github.com/chrislusf/seaweedfs/weed/pb/filer_pb"
	"github.com/chrislusf/seaweedfs/weed/pb/volume_server_pb"
	"github.com/chrislusf/seaweedfs/weed/storage/needle"
	"github.com/chrislusf/seaweedfs/weed/util"
	"github.com/chrislusf/seaweedfs/weed/util/log_buffer"
	"github.com/chrislusf/seaweedfs/weed/wdclient"
)

// ---------------------------------------------------------------------------------------------
// in-memory FilerStore (entries are kept encoded, like the real stores do)
// ---------------------------------------------------------------------------------------------

type gcv20Store struct {
	mu      sync.Mutex
	entries map[string][]byte
	kv      map[string][]byte
}

func newGcv20Store() *gcv20Store {
	return &gcv20Store{entries: make(map[string][]byte), kv: make(map[string][]byte)}
}

func (s *gcv20Store) GetName() string { return "gcv20_memory" }
func (s *gcv20Store) Initialize(configuration util.Configuration, prefix string) error {
	return nil
}
func (s *gcv20Store) InsertEntry(ctx context.Context, entry *Entry) error {
	blob, err := entry.EncodeAttributesAndChunks()
	if err != nil {
		return err
	}
	s.mu.Lock()
	defer s.mu.Unlock()
	s.entries[string(entry.FullPath)] = blob
	return nil
}
func (s *gcv20Store) UpdateEntry(ctx context.Context, entry *Entry) error {
	return s.InsertEntry(ctx, entry)
}
func (s *gcv20Store) FindEntry(ctx context.Context, p util.FullPath) (*Entry, error) {
	s.mu.Lock()
	blob, found := s.entries[string(p)]
	s.mu.Unlock()
	if !found {
		return nil, filer_pb.ErrNotFound
	}
	entry := &Entry{FullPath: p}
	if err := entry.DecodeAttributesAndChunks(blob); err != nil {
		return nil, err
	}
	return entry, nil
}
func (s *gcv20Store) DeleteEntry(ctx context.Context, p util.FullPath) error {
	s.mu.Lock()
	defer s.mu.Unlock()
	delete(s.entries, string(p))
	return nil
}
func (s *gcv20Store) DeleteFolderChildren(ctx context.Context, p util.FullPath) error {
	s.mu.Lock()
	defer s.mu.Unlock()
	for path := range s.entries {
		if dir, _ := util.FullPath(path).DirAndName(); dir == string(p) {
			delete(s.entries, path)
		}
	}
	return nil
}
func (s *gcv20Store) ListDirectoryEntries(ctx context.Context, dirPath util.FullPath, startFileName string, includeStartFile bool, limit int64, eachEntryFunc ListEachEntryFunc) (lastFileName string, err error) {
	s.mu.Lock()
	var names []string
	for path := range s.entries {
		dir, name := util.FullPath(path).DirAndName()
		if dir != string(dirPath) || path == "/" {
			continue
		}
		if name < startFileName || (name == startFileName && !includeStartFile) {
			continue
		}
		names = append(names, name)
	}
	s.mu.Unlock()
	sort.Strings(names)
	for i, name := range names {
		if int64(i) >= limit {
			break
		}
		entry, findErr := s.FindEntry(ctx, dirPath.Child(name))
		if findErr != nil {
			continue
		}
		lastFileName = name
		if !eachEntryFunc(entry) {
			break
		}
	}
	return lastFileName, nil
}
func (s *gcv20Store) ListDirectoryPrefixedEntries(ctx context.Context, dirPath util.FullPath, startFileName string, includeStartFile bool, limit int64, prefix string, eachEntryFunc ListEachEntryFunc) (string, error) {
	return "", ErrUnsupportedListDirectoryPrefixed
}
func (s *gcv20Store) BeginTransaction(ctx context.Context) (context.Context, error) {
	return ctx, nil
}
func (s *gcv20Store) CommitTransaction(ctx context.Context) error   { return nil }
func (s *gcv20Store) RollbackTransaction(ctx context.Context) error { return nil }
func (s *gcv20Store) KvPut(ctx context.Context, key []byte, value []byte) error {
	s.mu.Lock()
	defer s.mu.Unlock()
	s.kv[string(key)] = append([]byte(nil), value...)
	return nil
}
func (s *gcv20Store) KvGet(ctx context.Context, key []byte) ([]byte, error) {
	s.mu.Lock()
	defer s.mu.Unlock()
	value, found := s.kv[string(key)]
	if !found {
		return nil, ErrKvNotFound
	}
	return value, nil
}
func (s *gcv20Store) KvDelete(ctx context.Context, key []byte) error {
	s.mu.Lock()
	defer s.mu.Unlock()
	delete(s.kv, string(key))
	return nil
}
func (s *gcv20Store) Shutdown() {}

// ---------------------------------------------------------------------------------------------
// fake volume server recording BatchDelete requests, reachable only through a bufconn pipe
// ---------------------------------------------------------------------------------------------

type gcv20VolumeServer struct {
	volume_server_pb.UnimplementedVolumeServerServer
	mu      sync.Mutex
	deleted []string
}

func (vs *gcv20VolumeServer) BatchDelete(ctx context.Context, req *volume_server_pb.BatchDeleteRequest) (*volume_server_pb.BatchDeleteResponse, error) {
	vs.mu.Lock()
	defer vs.mu.Unlock()
	resp := &volume_server_pb.BatchDeleteResponse{}
	for _, fid := range req.FileIds {
		vs.deleted = append(vs.deleted, fid)
		resp.Results = append(resp.Results, &volume_server_pb.DeleteResult{FileId: fid, Status: 202})
	}
	return resp, nil
}

func (vs *gcv20VolumeServer) take() []string {
	vs.mu.Lock()
	defer vs.mu.Unlock()
	t := vs.deleted
	vs.deleted = nil
	return t
}

const (
	gcv20VolumeServerUrl  = "seed-c20-m1-volume:8080"  // what the master client reports
	gcv20VolumeServerGrpc = "seed-c20-m1-volume:18080" // what operation.WithVolumeServerClient dials
)

// newGcv20Filer builds a Filer the way NewFiler does, minus the background deletion loop, so that
// the content of the deletion queue can be inspected.
func newGcv20Filer(t *testing.T, volumeIds ...uint32) (*Filer, *gcv20VolumeServer) {
	vs := &gcv20VolumeServer{}
	listener := bufconn.Listen(1 << 20)
	grpcServer := grpc.NewServer()
	volume_server_pb.RegisterVolumeServerServer(grpcServer, vs)
	go grpcServer.Serve(listener)
	t.Cleanup(grpcServer.Stop)

	// pre-populate the grpc connection cache of weed/pb with an in-memory connection
	if err := pb.WithCachedGrpcClient(func(*grpc.ClientConn) error { return nil }, gcv20VolumeServerGrpc,
		grpc.WithInsecure(),
		grpc.WithContextDialer(func(ctx context.Context, s string) (net.Conn, error) { return listener.Dial() }),
	); err != nil {
		t.Fatalf("prime grpc connection cache: %v", err)
	}

	f := &Filer{
		MasterClient:        wdclient.NewMasterClient(grpc.WithInsecure(), "filer", "seed", 0, "", nil),
		fileIdDeletionQueue: util.NewUnboundedQueue(),
		GrpcDialOption:      grpc.WithInsecure(),
		FilerConf:           NewFilerConf(),
		DirBucketsPath:      "/buckets",
	}
	f.LocalMetaLogBuffer = log_buffer.NewLogBuffer("local", time.Minute, func(startTime, stopTime time.Time, buf []byte) {}, nil)
	f.SetStore(newGcv20Store())

	// tell the master client where the volumes live (vidMap is unexported in wdclient)
	vidMapField := reflect.ValueOf(f.MasterClient).Elem().FieldByName("vidMap").FieldByName("vid2Locations")
	vid2Locations := reflect.NewAt(vidMapField.Type(), unsafe.Pointer(vidMapField.UnsafeAddr())).Elem()
	for _, vid := range volumeIds {
		vid2Locations.SetMapIndex(reflect.ValueOf(vid), reflect.ValueOf([]wdclient.Location{{Url: gcv20VolumeServerUrl, PublicUrl: gcv20VolumeServerUrl}}))
	}
	return f, vs
}

func gcv20Chunk(vid uint32, key uint64, offset int64) *filer_pb.FileChunk {
	return &filer_pb.FileChunk{
		FileId: needle.NewFileId(needle.VolumeId(vid), key, 0x5eed0000+uint32(key)).String(),
		Offset: offset,
		Size:   100,
		Mtime:  int64(key),
	}
}

func gcv20File(path string, hardLinkId HardLinkId, counter int32, chunks ...*filer_pb.FileChunk) *Entry {
	// every entry gets its own copies of the chunk messages
	var copied []*filer_pb.FileChunk
	for _, c := range chunks {
		copied = append(copied, &filer_pb.FileChunk{FileId: c.FileId, Offset: c.Offset, Size: c.Size, Mtime: c.Mtime})
	}
	now := time.Now()
	return &Entry{
		FullPath:        util.FullPath(path),
		Attr:            Attr{Mtime: now, Crtime: now, Mode: os.FileMode(0644), Uid: 1, Gid: 1},
		Chunks:          copied,
		HardLinkId:      hardLinkId,
		HardLinkCounter: counter,
	}
}

// drainDeletions returns every file id that reached one of the two deletion sinks since the last call.
func gcv20DrainDeletions(f *Filer, vs *gcv20VolumeServer) map[string]bool {
	deleted := make(map[string]bool)
	for _, fid := range vs.take() {
		deleted[fid] = true
	}
	f.fileIdDeletionQueue.Consume(func(fileIds []string) {
		for _, fid := range fileIds {
			deleted[fid] = true
		}
	})
	return deleted
}

func gcv20Ids(chunks ...*filer_pb.FileChunk) (ids []string) {
	for _, c := range chunks {
		ids = append(ids, c.GetFileIdString())
	}
	return
}

// Replay driver for property C20 (failing obligation
// filer.(*Filer).DeleteEntryMetaAndData#guard:sink#1@(*github.com/chrislusf/seaweedfs/weed/filer.Filer).DirectDeleteChunks):
// the harness above is the observation harness of the seeded change C20-m1 (in-memory store, fake
// volume server behind an in-memory gRPC pipe). One of two names of a hard-linked file is deleted
// with data deletion requested; the other name stays live and still references the chunks.
func TestGcvReplayC20DeleteOneNameOfHardLinkedFile(t *testing.T) {
	ctx := context.Background()
	f, vs := newGcv20Filer(t, 3, 4)
	shared1, shared2 := gcv20Chunk(3, 0x101, 0), gcv20Chunk(4, 0x102, 100)
	mustCreate := func(e *Entry) {
		t.Helper()
		if err := f.CreateEntry(ctx, e, false, false, nil); err != nil {
			t.Fatalf("create %s: %v", e.FullPath, err)
		}
	}
	hardLinkId := HardLinkId([]byte("gcv-c20-hardlink-0001"))
	mustCreate(gcv20File("/work/data.bin", nil, 0, shared1, shared2))
	mustCreate(gcv20File("/work/data.bin", hardLinkId, 2, shared1, shared2))
	mustCreate(gcv20File("/archive/data.bin", hardLinkId, 2, shared1, shared2))
	if d := gcv20DrainDeletions(f, vs); len(d) != 0 {
		t.Fatalf("setup must not delete any chunk, got %v", d)
	}
	// rm /work/data.bin (with data deletion requested, as the filer HTTP DELETE handler does)
	if err := f.DeleteEntryMetaAndData(ctx, util.FullPath("/work/data.bin"), false, false, true, false, nil); err != nil {
		t.Fatalf("delete /work/data.bin: %v", err)
	}
	deleted := gcv20DrainDeletions(f, vs)
	kept, err := f.FindEntry(ctx, util.FullPath("/archive/data.bin"))
	if err != nil {
		t.Fatalf("/archive/data.bin must survive: %v", err)
	}
	for _, c := range kept.Chunks {
		if deleted[c.GetFileIdString()] {
			t.Errorf("chunk %s is still referenced by the live entry /archive/data.bin (hard link counter %d) but was deleted", c.GetFileIdString(), kept.HardLinkCounter)
		}
	}
}
