package weed_server

// Hand-written replay driver for property C28, part 2 of 2 (see c28_delete_key_prefix_s3_test.go):
// the request the S3 gateway sends for a single-object delete of the key "photos" -
// DELETE /buckets/bkt/photos?recursive=true - is handled by the real filer DeleteHandler on a real
// filer (leveldb store) that holds photos/a.jpg and photos/b.jpg. Injected with go test -overlay.
//
//   cd /repo && echo '{"Replace":{"/repo/weed/server/zz_gcv_c28d_test.go":"/verif/replay/c28_delete_key_prefix_filer_test.go"}}' > /tmp/ov.json
//   go test -overlay /tmp/ov.json -vet=off -timeout 120s -run TestGcvReplayC28DeleteKey ./weed/server/

import (
	"context"
	"net/http/httptest"
	"testing"
	"time"

	"github.com/chrislusf/seaweedfs/weed/filer"
	"github.com/chrislusf/seaweedfs/weed/filer/leveldb"
	"github.com/chrislusf/seaweedfs/weed/util"
)

type gcvC28dConfig map[string]string

func (c gcvC28dConfig) GetString(key string) string              { return c[key] }
func (c gcvC28dConfig) GetBool(key string) bool                  { return false }
func (c gcvC28dConfig) GetInt(key string) int                    { return 0 }
func (c gcvC28dConfig) GetStringSlice(key string) []string       { return nil }
func (c gcvC28dConfig) SetDefault(key string, value interface{}) {}

func TestGcvReplayC28DeleteKeyRequestAtTheFiler(t *testing.T) {
	f := filer.NewFiler(nil, nil, "", 0, "", "", "", nil)
	store := &leveldb.LevelDBStore{}
	if err := store.Initialize(gcvC28dConfig{"dir": t.TempDir()}, ""); err != nil {
		t.Fatal(err)
	}
	f.SetStore(store)
	f.DirBucketsPath = "/not-used-here" // plain directories: the bucket registry of a full filer server is not needed
	fs := &FilerServer{filer: f, option: &FilerOption{}}
	ctx := context.Background()
	for _, p := range []string{"/buckets/bkt/photos/a.jpg", "/buckets/bkt/photos/b.jpg", "/buckets/bkt/other.txt"} {
		e := &filer.Entry{FullPath: util.FullPath(p), Attr: filer.Attr{Mode: 0644, Mtime: time.Now(), Crtime: time.Now()}}
		if err := f.CreateEntry(ctx, e, false, false, nil); err != nil {
			t.Fatalf("create %s: %v", p, err)
		}
	}

	// what the S3 gateway sends when a client deletes the single key "photos"
	fs.DeleteHandler(httptest.NewRecorder(), httptest.NewRequest("DELETE", "http://filer/buckets/bkt/photos?recursive=true", nil))

	for _, p := range []string{"/buckets/bkt/photos/a.jpg", "/buckets/bkt/photos/b.jpg", "/buckets/bkt/other.txt"} {
		if _, err := f.FindEntry(ctx, util.FullPath(p)); err != nil {
			t.Fatalf("deleting the key \"photos\" removed the key %s, which was not named: %v", p, err)
		}
	}
}
