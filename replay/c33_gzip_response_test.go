package util

// Hand-written replay driver for property C33 (failing obligations
// util.Get#precondition:io/ioutil.ReadAll.requires#1, util.ReadUrl / ReadUrlAsStream /
// ReadUrlAsReaderCloser#precondition:(*compress/gzip.Reader).Close.requires#1): a server answers
// with Content-Encoding: gzip and a body that is not a gzip stream (what a volume server sends for
// a blob that was uploaded flagged as compressed). Injected with go test -overlay.
//
//   cd /repo && echo '{"Replace":{"/repo/weed/util/zz_gcv_c33b_test.go":"/verif/replay/c33_gzip_response_test.go"}}' > /tmp/ov.json
//   go test -overlay /tmp/ov.json -vet=off -timeout 120s -run TestGcvReplayC33 ./weed/util/

import (
	"net/http"
	"net/http/httptest"
	"testing"
)

func TestGcvReplayC33MalformedGzipResponseDoesNotCrash(t *testing.T) {
	srv := httptest.NewServer(http.HandlerFunc(func(w http.ResponseWriter, r *http.Request) {
		w.Header().Set("Content-Encoding", "gzip")
		w.Write([]byte("not a gzip stream"))
	}))
	defer srv.Close()

	try := func(name string, f func() error) {
		defer func() {
			if r := recover(); r != nil {
				t.Errorf("%s panics on a malformed gzip response: %v", name, r)
			}
		}()
		if err := f(); err == nil {
			t.Errorf("%s: no error for a malformed gzip response", name)
		}
	}
	try("Get", func() error { _, _, err := Get(srv.URL); return err })
	try("ReadUrl", func() error { _, err := ReadUrl(srv.URL, nil, false, true, 0, 8, make([]byte, 8)); return err })
	try("ReadUrlAsStream", func() error {
		_, err := ReadUrlAsStream(srv.URL, nil, false, true, 0, 8, func([]byte) {})
		return err
	})
	try("ReadUrlAsReaderCloser", func() error { _, err := ReadUrlAsReaderCloser(srv.URL, ""); return err })
}
