package sequence

// Hand-written replay driver for property C13 (EtcdSequencer.SetMax): an in-memory stand-in for the
// etcd KeysAPI drives the real EtcdSequencer. Injected with go test -overlay; never part of /repo.

import (
	"context"
	"os"
	"path/filepath"
	"sync"
	"testing"

	"go.etcd.io/etcd/client"
)

// gcv13FakeKeys is a tiny in-memory stand-in for the etcd v2 KeysAPI. Only the
// calls used by EtcdSequencer (Get / Set with PrevValue / Create) do real work.
type gcv13FakeKeys struct {
	mu   sync.Mutex
	data map[string]string
}

func (f *gcv13FakeKeys) Get(ctx context.Context, key string, opts *client.GetOptions) (*client.Response, error) {
	f.mu.Lock()
	defer f.mu.Unlock()
	v, ok := f.data[key]
	if !ok {
		return nil, client.Error{Code: client.ErrorCodeKeyNotFound, Message: "Key not found"}
	}
	return &client.Response{Action: "get", Node: &client.Node{Key: key, Value: v}}, nil
}

func (f *gcv13FakeKeys) Set(ctx context.Context, key, value string, opts *client.SetOptions) (*client.Response, error) {
	f.mu.Lock()
	defer f.mu.Unlock()
	if opts != nil && opts.PrevValue != "" {
		if cur, ok := f.data[key]; !ok || cur != opts.PrevValue {
			return nil, client.Error{Code: client.ErrorCodeTestFailed, Message: "Compare failed"}
		}
	}
	f.data[key] = value
	return &client.Response{Action: "set", Node: &client.Node{Key: key, Value: value}}, nil
}

func (f *gcv13FakeKeys) Create(ctx context.Context, key, value string) (*client.Response, error) {
	f.mu.Lock()
	defer f.mu.Unlock()
	if _, ok := f.data[key]; ok {
		return nil, client.Error{Code: client.ErrorCodeNodeExist, Message: "Key already exists"}
	}
	f.data[key] = value
	return &client.Response{Action: "create", Node: &client.Node{Key: key, Value: value}}, nil
}

func (f *gcv13FakeKeys) Delete(ctx context.Context, key string, opts *client.DeleteOptions) (*client.Response, error) {
	panic("unused")
}
func (f *gcv13FakeKeys) CreateInOrder(ctx context.Context, dir, value string, opts *client.CreateInOrderOptions) (*client.Response, error) {
	panic("unused")
}
func (f *gcv13FakeKeys) Update(ctx context.Context, key, value string) (*client.Response, error) {
	panic("unused")
}
func (f *gcv13FakeKeys) Watcher(key string, opts *client.WatcherOptions) client.Watcher {
	panic("unused")
}

// same steps as NewEtcdSequencer, minus dialing a real etcd cluster
func gcv13NewEtcdSequencer(t *testing.T, keys client.KeysAPI, dir string) *EtcdSequencer {
	file, err := openSequenceFile(filepath.Join(dir, SequencerFileName))
	if err != nil {
		t.Fatal(err)
	}
	maxValue, _, err := readSequenceFile(file)
	if err != nil {
		t.Fatal(err)
	}
	newSeq, err := setMaxSequenceToEtcd(keys, maxValue)
	if err != nil {
		t.Fatal(err)
	}
	return &EtcdSequencer{maxSeqId: newSeq, currentSeqId: newSeq, keysAPI: keys, seqFile: file}
}


// After a volume server reports key `seen` as in use, no later assignment may return a key <= seen.
func TestGcvC13EtcdSetMaxThenAssign(t *testing.T) {
	dir, err := os.MkdirTemp("", "gcvc13")
	if err != nil {
		t.Fatal(err)
	}
	defer os.RemoveAll(dir)
	keys := &gcv13FakeKeys{data: map[string]string{}}
	seq := gcv13NewEtcdSequencer(t, keys, dir)
	for _, seen := range []uint64{1000, 5000, 5001} {
		seq.SetMax(seen)
		for i := 0; i < 3; i++ {
			if k := seq.NextFileId(1); k <= seen {
				t.Fatalf("after SetMax(%d) the sequencer handed out key %d, which is already in use", seen, k)
			}
		}
	}
}
