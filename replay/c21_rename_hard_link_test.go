package weed_server

// Hand-written replay driver for property C21 (failing obligation
// server.(*FilerServer).moveSelfEntry#guard: the entry created under the new name carries the
// hard-link identity of the entry that is moved). Two names share a hard-link identity; one of
// them is renamed through the real AtomicRenameEntry on a real filer (leveldb store).
// Injected with go test -overlay; never part of /repo.
//
//   cd /repo && echo '{"Replace":{"/repo/weed/server/zz_gcv_c21_test.go":"/verif/replay/c21_rename_hard_link_test.go"}}' > /tmp/ov.json
//   go test -overlay /tmp/ov.json -vet=off -timeout 120s -run TestGcvReplayC21 ./weed/server/

import (
	"bytes"
	"context"
	"testing"
	"time"

	"github.com/chrislusf/seaweedfs/weed/filer"
	"github.com/chrislusf/seaweedfs/weed/filer/leveldb"
	"github.com/chrislusf/seaweedfs/weed/pb/filer_pb"
	"github.com/chrislusf/seaweedfs/weed/util"
)

type gcvC21Config map[string]string

func (c gcvC21Config) GetString(key string) string              { return c[key] }
func (c gcvC21Config) GetBool(key string) bool                  { return false }
func (c gcvC21Config) GetInt(key string) int                    { return 0 }
func (c gcvC21Config) GetStringSlice(key string) []string       { return nil }
func (c gcvC21Config) SetDefault(key string, value interface{}) {}

func TestGcvReplayC21RenameKeepsHardLink(t *testing.T) {
	f := filer.NewFiler(nil, nil, "", 0, "", "", "", nil)
	store := &leveldb.LevelDBStore{}
	if err := store.Initialize(gcvC21Config{"dir": t.TempDir()}, ""); err != nil {
		t.Fatal(err)
	}
	f.SetStore(store)
	f.DirBucketsPath = "/buckets"
	fs := &FilerServer{filer: f, option: &FilerOption{}}
	ctx := context.Background()

	id := filer.HardLinkId([]byte("0123456789abcdef"))
	chunks := []*filer_pb.FileChunk{{FileId: "3,01637037d6", Size: 10, Mtime: 1}}
	mk := func(p string, counter int32) {
		e := &filer.Entry{FullPath: util.FullPath(p), Attr: filer.Attr{Mode: 0644, Mtime: time.Now(), Crtime: time.Now()},
			Chunks: chunks, HardLinkId: id, HardLinkCounter: counter}
		if err := f.CreateEntry(ctx, e, false, false, nil); err != nil {
			t.Fatalf("create %s: %v", p, err)
		}
	}
	mk("/dir/name1", 1)
	mk("/dir/name2", 2) // the second name of the same file: counter 2

	if _, err := fs.AtomicRenameEntry(ctx, &filer_pb.AtomicRenameEntryRequest{
		OldDirectory: "/dir", OldName: "name1", NewDirectory: "/dir", NewName: "renamed",
	}); err != nil {
		t.Fatalf("rename: %v", err)
	}

	renamed, err := f.FindEntry(ctx, util.FullPath("/dir/renamed"))
	if err != nil {
		t.Fatalf("the renamed name does not resolve: %v", err)
	}
	other, err := f.FindEntry(ctx, util.FullPath("/dir/name2"))
	if err != nil {
		t.Fatalf("the other name does not resolve: %v", err)
	}
	if !bytes.Equal(renamed.HardLinkId, id) {
		t.Fatalf("after renaming one of two hard-linked names, the renamed name is no longer linked (hard link id %q, want %q); the other name now reports %d link(s) while two names show the file",
			renamed.HardLinkId, id, other.HardLinkCounter)
	}
	if other.HardLinkCounter != 2 || renamed.HardLinkCounter != 2 {
		t.Fatalf("two live names, but the link counters are %d (renamed) and %d (other)", renamed.HardLinkCounter, other.HardLinkCounter)
	}
}
