package filer

// Hand-written replay driver for property C17 (failing obligation
// filer.(*ChunkReadAt).doReadAt#postcondition:ensures#2): a read over a range that no chunk covers
// (a hole inside the file size) into a buffer that already holds data. Injected with go test
// -overlay; never part of /repo.
//
//   cd /repo && echo '{"Replace":{"/repo/weed/filer/zz_gcv_c17_test.go":"/verif/replay/c17_hole_read_test.go"}}' > /tmp/ov.json
//   go test -overlay /tmp/ov.json -vet=off -timeout 120s -run TestGcvReplayC17 ./weed/filer/

import (
	"testing"
)

func TestGcvReplayC17HoleReadsAsZeros(t *testing.T) {
	c := &ChunkReadAt{chunkViews: nil, fileSize: 100}
	p := []byte{1, 2, 3, 4, 5, 6, 7, 8}
	n, err := c.doReadAt(p, 10)
	if err != nil || n != 8 {
		t.Fatalf("doReadAt: n=%d err=%v, want 8 bytes", n, err)
	}
	for i, b := range p {
		if b != 0 {
			t.Fatalf("byte %d of a hole reads as %d, want 0 (buffer after the read: %v)", i, b, p)
		}
	}
}
