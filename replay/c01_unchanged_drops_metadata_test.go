package storage

// Hand-written replay driver for property C01 (open finding, failing obligation
// storage.(*Volume).isFileUnchanged#postcondition:ensures#3): a second upload of the same bytes under
// the same file id but with another name and mime type is reported "unchanged" and not stored, so a
// read returns the metadata of the first write. Injected with go test -overlay; never part of /repo.
//
//   cd /repo && echo '{"Replace":{"/repo/weed/storage/zz_gcv_c01_test.go":"/verif/replay/c01_unchanged_drops_metadata_test.go"}}' > /tmp/ov.json
//   go test -overlay /tmp/ov.json -vet=off -timeout 120s -run TestGcvReplayC01 ./weed/storage/

import (
	"io/ioutil"
	"os"
	"testing"

	"github.com/chrislusf/seaweedfs/weed/storage/needle"
	"github.com/chrislusf/seaweedfs/weed/storage/super_block"
	"github.com/chrislusf/seaweedfs/weed/storage/types"
)

func gcv01Needle(name, mime string) *needle.Needle {
	n := new(needle.Needle)
	n.Id = types.Uint64ToNeedleId(7)
	n.Cookie = types.Cookie(0x1234)
	n.Data = []byte("same bytes")
	n.Checksum = needle.NewCRC(n.Data)
	n.Name = []byte(name)
	n.NameSize = uint8(len(name))
	n.SetHasName()
	n.Mime = []byte(mime)
	n.MimeSize = uint8(len(mime))
	n.SetHasMime()
	return n
}

func TestGcvReplayC01SameDataNewMetadata(t *testing.T) {
	dir, err := ioutil.TempDir("", "gcv01")
	if err != nil {
		t.Fatal(err)
	}
	defer os.RemoveAll(dir)
	v, err := NewVolume(dir, dir, "", 1, NeedleMapInMemory, &super_block.ReplicaPlacement{}, needle.EMPTY_TTL, 0, 0)
	if err != nil {
		t.Fatal(err)
	}
	defer v.Close()
	if _, _, _, err := v.writeNeedle2(gcv01Needle("report.txt", "text/plain"), false); err != nil {
		t.Fatal(err)
	}
	_, _, unchanged, err := v.writeNeedle2(gcv01Needle("report.csv", "text/csv"), false)
	if err != nil {
		t.Fatal(err)
	}
	got := new(needle.Needle)
	got.Id = types.Uint64ToNeedleId(7)
	if _, err := v.readNeedle(got, nil); err != nil {
		t.Fatal(err)
	}
	if string(got.Name) != "report.csv" || string(got.Mime) != "text/csv" {
		t.Fatalf("after a successful second write (reported unchanged=%v) the read returns name %q mime %q, want the metadata of the last write: report.csv text/csv", unchanged, got.Name, got.Mime)
	}
}
