package weed_server

// Hand-written replay driver for property C25 (failing obligation
// server.(*FilerServer).uploadReaderToChunks#guard: content is kept inline only if the body is
// exhausted). The limit for keeping small files in the filer store is larger than the chunk size
// and the body is longer than one chunk. Injected with go test -overlay; never part of /repo.
//
//   cd /repo && echo '{"Replace":{"/repo/weed/server/zz_gcv_c25b_test.go":"/verif/replay/c25_inline_drops_rest_test.go"}}' > /tmp/ov.json
//   go test -overlay /tmp/ov.json -vet=off -timeout 120s -run TestGcvReplayC25Inline ./weed/server/

import (
	"bytes"
	"net/http/httptest"
	"testing"
	"time"

	"google.golang.org/grpc"

	"github.com/chrislusf/seaweedfs/weed/filer"
	"github.com/chrislusf/seaweedfs/weed/operation"
)

func TestGcvReplayC25InlineKeepsWholeBody(t *testing.T) {
	// no master is reachable: a body that has to go to volume servers ends in an error (fine here),
	// a body that is kept inline must be kept whole
	fs := &FilerServer{option: &FilerOption{SaveToFilerLimit: 100}, grpcDialOption: grpc.WithInsecure(),
		filer: filer.NewFiler([]string{"127.0.0.1:9"}, grpc.WithInsecure(), "", 0, "", "", "", nil)}
	body := []byte("0123456789abcdef0123456789ABCDEF01234567") // 40 bytes
	r := httptest.NewRequest("PUT", "http://filer/dir/file.txt", bytes.NewReader(body))
	w := httptest.NewRecorder()
	type result struct {
		chunks int
		size   int64
		err    error
		inline []byte
	}
	done := make(chan result, 1)
	go func() {
		chunks, _, size, err, inline := fs.uploadReaderToChunks(w, r, bytes.NewReader(body), 16, "file.txt", "", int64(len(body)), &operation.StorageOption{})
		done <- result{len(chunks), size, err, inline}
	}()
	var res result
	select {
	case res = <-done:
	case <-time.After(3 * time.Second):
		t.Log("the body is being sent to volume servers chunk by chunk (none is reachable here): it is not kept inline")
		return
	}
	chunks, size, err, inline := make([]int, res.chunks), res.size, res.err, res.inline
	if err != nil {
		return // refusing is fine
	}
	if len(chunks) == 0 && !bytes.Equal(inline, body) {
		t.Fatalf("a 40 byte body uploaded with chunk size 16 and an inline limit of 100 is stored as %d inline bytes %q (reported size %d, no chunks, no error): the rest of the body is dropped",
			len(inline), inline, size)
	}
}
