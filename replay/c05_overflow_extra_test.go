//go:build 5BytesOffset
// +build 5BytesOffset

package needle_map

// Hand-written replay driver for property C05, obligation
// storage/needle_map.(*CompactSection).setOverflowEntry#postcondition:ensures#1 under the
// 5BytesOffset tag: after Set on a key that already lives in the overflow area, the entry must
// carry the complete new offset, including the fifth (high) byte. Injected with go test -overlay.

import (
	"testing"

	"github.com/chrislusf/seaweedfs/weed/storage/types"
)

func TestGcvReplayC05OverflowUpdateHighByte(t *testing.T) {
	m := NewCompactMap()
	unit := int64(1) << 32 * int64(types.NeedlePaddingSize) // offsets that differ in the fifth byte only
	for k := 0; k < 200; k++ { // even keys 1000, 1002, ... fill the sorted area
		m.Set(types.NeedleId(1000+2*k), types.ToOffset(int64(8*(k+1))), types.Size(1))
	}
	// key 1001 is far out of order (more than 128 entries back): it goes to the overflow area
	m.Set(types.NeedleId(1001), types.ToOffset(1*unit+8), types.Size(2))
	m.Set(types.NeedleId(1001), types.ToOffset(2*unit+8), types.Size(3)) // update of the overflow entry
	v, ok := m.Get(types.NeedleId(1001))
	if !ok {
		t.Fatalf("key 1001 not found")
	}
	want := 2*unit + 8
	t.Logf("stored offset %d size %d, expected offset %d size 3", v.Offset.ToActualOffset(), v.Size, want)
	if v.Offset.ToActualOffset() != want || v.Size != 3 {
		t.Fatalf("GCV-REPLAY-MISMATCH lookup after update returns offset %d, the latest put stored %d", v.Offset.ToActualOffset(), want)
	}
}
