package topology

// Hand-written replay driver for property C40 (open finding, failing obligation
// operation.doUploadData#guard:sink#5@upload_content: the mime type sent is the caller's).
// Injected with go test -overlay; never part of /repo.
//
//   cd /repo && echo '{"Replace":{"/repo/weed/topology/zz_gcv_c40_test.go":"/verif/replay/c40_replica_mime_test.go"}}' > /tmp/ov.json
//   go test -overlay /tmp/ov.json -vet=off -timeout 120s -run TestGcvReplayC40 ./weed/topology/
//
// Scenario: a volume with replication 001 lives on this server (a real storage.Store with a
// real volume in a temp dir) and on one other volume server (an httptest server that decodes
// what it is sent exactly like VolumeServer.PostHandler does). A client uploads files; every
// upload that is reported successful must leave the same needle on both servers: same decoded
// content, name, mime, pairs, last-modified time and TTL.

import (
	"bytes"
	"encoding/json"
	"fmt"
	"mime/multipart"
	"net/http"
	"net/http/httptest"
	"net/textproto"
	"strings"
	"sync"
	"testing"

	"github.com/chrislusf/seaweedfs/weed/storage"
	"github.com/chrislusf/seaweedfs/weed/storage/needle"
	"github.com/chrislusf/seaweedfs/weed/storage/types"
	"github.com/chrislusf/seaweedfs/weed/util"
)

// gcvC40Replica stands in for the other volume server holding the volume.
type gcvC40Replica struct {
	sync.Mutex
	needles map[string]*needle.Needle // by url path
}

func (rep *gcvC40Replica) ServeHTTP(w http.ResponseWriter, r *http.Request) {
	rep.Lock()
	defer rep.Unlock()
	w.Header().Set("Content-Type", "application/json")
	if r.Method != "POST" {
		w.WriteHeader(http.StatusMethodNotAllowed)
		return
	}
	// same decoding steps as VolumeServer.PostHandler
	if e := r.ParseForm(); e != nil {
		w.WriteHeader(http.StatusBadRequest)
		fmt.Fprintf(w, `{"error":%q}`, e.Error())
		return
	}
	n, _, _, e := needle.CreateNeedleFromRequest(r, false, 1024*1024, &bytes.Buffer{})
	if e != nil {
		w.WriteHeader(http.StatusBadRequest)
		fmt.Fprintf(w, `{"error":%q}`, e.Error())
		return
	}
	n.Data = append([]byte(nil), n.Data...)
	rep.needles[r.URL.Path] = n
	w.WriteHeader(http.StatusCreated)
	fmt.Fprintf(w, `{"size":%d}`, len(n.Data))
}

var gcvC40ClientEscaper = strings.NewReplacer(`\`, `\\`, `"`, `\"`)

// gcvC40Upload does what VolumeServer.PostHandler does with a client upload:
// decode the request into a needle and hand it to ReplicatedWrite.
func gcvC40Upload(t *testing.T, s *storage.Store, masterFn func() string, vid needle.VolumeId, pathAndQuery, fileName, mimeType string, data []byte, pairs map[string]string) (*needle.Needle, error) {
	body := &bytes.Buffer{}
	mw := multipart.NewWriter(body)
	h := make(textproto.MIMEHeader)
	h.Set("Content-Disposition", `form-data; name="file"; filename="`+gcvC40ClientEscaper.Replace(fileName)+`"`)
	if mimeType != "" {
		h.Set("Content-Type", mimeType)
	}
	pw, err := mw.CreatePart(h)
	if err != nil {
		t.Fatal(err)
	}
	pw.Write(data)
	mw.Close()
	r := httptest.NewRequest("POST", pathAndQuery, body)
	r.Header.Set("Content-Type", mw.FormDataContentType())
	for k, v := range pairs {
		r.Header.Set(k, v)
	}
	if e := r.ParseForm(); e != nil {
		t.Fatal(e)
	}
	n, _, _, e := needle.CreateNeedleFromRequest(r, false, 1024*1024, &bytes.Buffer{})
	if e != nil {
		t.Fatal(e)
	}
	_, werr := ReplicatedWrite(masterFn, s, vid, n, r)
	return n, werr
}

func gcvC40Decoded(t *testing.T, n *needle.Needle) []byte {
	if !n.IsCompressed() {
		return n.Data
	}
	d, err := util.DecompressData(n.Data)
	if err != nil {
		t.Fatalf("needle %v does not decompress: %v", n, err)
	}
	return d
}

func TestGcvReplayC40ReplicaStoresTheSameMime(t *testing.T) {
	const vid = needle.VolumeId(41)

	replica := &gcvC40Replica{needles: make(map[string]*needle.Needle)}
	replicaServer := httptest.NewServer(replica)
	defer replicaServer.Close()
	replicaUrl := strings.TrimPrefix(replicaServer.URL, "http://")

	s := storage.NewStore(nil, 18041, "127.0.0.1", "127.0.0.1:18041", []string{t.TempDir()}, []int{4},
		[]util.MinFreeSpace{{}}, "", storage.NeedleMapInMemory, []types.DiskType{types.HardDriveType})
	defer s.Close()
	if err := s.AddVolume(vid, "", storage.NeedleMapInMemory, "001", "", 0, 0, types.HardDriveType); err != nil {
		t.Fatal(err)
	}
	selfUrl := "127.0.0.1:18041"
	master := httptest.NewServer(http.HandlerFunc(func(w http.ResponseWriter, r *http.Request) {
		json.NewEncoder(w).Encode(map[string]interface{}{
			"volumeId": "41",
			"locations": []map[string]string{
				{"url": selfUrl, "publicUrl": selfUrl},
				{"url": replicaUrl, "publicUrl": replicaUrl},
			},
		})
	}))
	defer master.Close()
	masterFn := func() string { return strings.TrimPrefix(master.URL, "http://") }

	// a text file without extension, uploaded without a Content-Type: the first server stores no mime
	path := "/41,0f1b2c3d4e"
	n, err := gcvC40Upload(t, s, masterFn, vid, path, "README", "", []byte("plain text, nothing else\n"), nil)
	if err != nil {
		t.Fatalf("upload failed: %v", err)
	}
	local := new(needle.Needle)
	local.Id, local.Cookie = n.Id, n.Cookie
	if _, rerr := s.ReadVolumeNeedle(vid, local, nil); rerr != nil {
		t.Fatalf("local copy unreadable: %v", rerr)
	}
	replica.Lock()
	remote, found := replica.needles[path]
	replica.Unlock()
	if !found {
		t.Fatalf("upload reported successful but the replica holds nothing")
	}
	if string(remote.Mime) != string(local.Mime) {
		t.Fatalf("upload reported successful, but the copies differ: this server stores mime %q, the replica stores mime %q", local.Mime, remote.Mime)
	}
}
