package topology

// Hand-written replay driver for property C12 (failing obligations
// topology.(*DataNode).AdjustMaxVolumeCounts#guard:sink#1@... and the registered-volume guard of
// DataNode.DeltaUpdateVolumes): the real DataNode is driven with the two histories that break the
// counters. Injected with go test -overlay; never part of /repo.
//
//   cd /repo && echo '{"Replace":{"/repo/weed/topology/zz_gcv_c12_test.go":"/verif/replay/c12_accounting_test.go"}}' > /tmp/ov.json
//   go test -overlay /tmp/ov.json -vet=off -timeout 120s -run TestGcvReplayC12 ./weed/topology/

import (
	"testing"

	"github.com/chrislusf/seaweedfs/weed/sequence"
	"github.com/chrislusf/seaweedfs/weed/storage"
	"github.com/chrislusf/seaweedfs/weed/storage/needle"
	"github.com/chrislusf/seaweedfs/weed/storage/types"
)

func gcv12DataNode() (*Topology, *DataNode) {
	topo := NewTopology("weedfs", sequence.NewMemorySequencer(), 32*1024, 5, false)
	dc := topo.GetOrCreateDataCenter("dc1")
	rack := dc.GetOrCreateRack("rack1")
	dn := rack.GetOrCreateDataNode("10.0.0.1", 8080, "10.0.0.1:8080", map[string]uint32{"": 10})
	return topo, dn
}

// An incremental heartbeat that reports the deletion of a volume the master never registered
// must not change the counts (they are recomputable from the registered volumes).
func TestGcvReplayC12DeleteOfUnregisteredVolume(t *testing.T) {
	topo, dn := gcv12DataNode()
	v1 := storage.VolumeInfo{Id: needle.VolumeId(1), Size: 100, Version: needle.CurrentVersion}
	dn.UpdateVolumes([]storage.VolumeInfo{v1})
	if got := dn.diskUsages.getOrCreateDisk(types.HardDriveType).volumeCount; got != 1 {
		t.Fatalf("setup: volume count %d, want 1", got)
	}
	v2 := storage.VolumeInfo{Id: needle.VolumeId(2), Size: 100, Version: needle.CurrentVersion}
	dn.DeltaUpdateVolumes(nil, []storage.VolumeInfo{v2})
	registered := len(dn.GetVolumes())
	if got := dn.diskUsages.getOrCreateDisk(types.HardDriveType).volumeCount; got != int64(registered) {
		t.Errorf("server: volume count %d but %d volume(s) registered", got, registered)
	}
	if got := topo.diskUsages.getOrCreateDisk(types.HardDriveType).volumeCount; got != int64(registered) {
		t.Errorf("cluster: volume count %d but %d volume(s) registered", got, registered)
	}
}

// A heartbeat that changes the max volume counts of two disk types at once must leave every
// count equal to the reported value.
func TestGcvReplayC12MaxCountsOfTwoDiskTypes(t *testing.T) {
	topo, dn := gcv12DataNode()
	dn.AdjustMaxVolumeCounts(map[string]uint32{"": 30, "ssd": 20})
	for _, c := range []struct {
		dt   types.DiskType
		want int64
	}{{types.HardDriveType, 30}, {types.SsdType, 20}} {
		if got := dn.diskUsages.getOrCreateDisk(c.dt).maxVolumeCount; got != c.want {
			t.Errorf("server: max volume count of %q is %d, want %d", c.dt, got, c.want)
		}
		if got := topo.diskUsages.getOrCreateDisk(c.dt).maxVolumeCount; got != c.want {
			t.Errorf("cluster: max volume count of %q is %d, want %d", c.dt, got, c.want)
		}
	}
}
