package s3api

// Hand-written replay driver for property C28, part 1 of 2 (open finding, failing obligation
// s3api.(*S3ApiServer).DeleteObjectHandler#guard:sink#1@(*S3ApiServer).proxyToFiler: a single-object
// delete does not ask for a recursive delete). The real DeleteObjectHandler is pointed at an HTTP
// server that records what the filer is asked to do. Part 2 (c28_delete_key_prefix_filer_test.go)
// sends exactly that request to the real filer handler. Injected with go test -overlay.
//
//   cd /repo && echo '{"Replace":{"/repo/weed/s3api/zz_gcv_c28c_test.go":"/verif/replay/c28_delete_key_prefix_s3_test.go"}}' > /tmp/ov.json
//   go test -overlay /tmp/ov.json -vet=off -timeout 120s -run TestGcvReplayC28DeleteKey ./weed/s3api/

import (
	"net/http"
	"net/http/httptest"
	"strings"
	"testing"

	"github.com/gorilla/mux"
)

func TestGcvReplayC28DeleteKeyThatIsAlsoAPrefix(t *testing.T) {
	var asked []string
	filer := httptest.NewServer(http.HandlerFunc(func(w http.ResponseWriter, r *http.Request) {
		asked = append(asked, r.Method+" "+r.URL.RequestURI())
		w.WriteHeader(http.StatusNoContent)
	}))
	defer filer.Close()
	s3a := &S3ApiServer{option: &S3ApiServerOption{Filer: strings.TrimPrefix(filer.URL, "http://"), BucketsPath: "/buckets"}, iam: &IdentityAccessManagement{}}

	// the bucket holds photos/a.jpg and photos/b.jpg; a client deletes the key "photos"
	req := httptest.NewRequest(http.MethodDelete, "http://s3.example.com/bkt/photos", nil)
	req = mux.SetURLVars(req, map[string]string{"bucket": "bkt", "object": "photos"})
	s3a.DeleteObjectHandler(httptest.NewRecorder(), req)

	if len(asked) != 1 {
		t.Fatalf("expected one request to the filer, got %v", asked)
	}
	if strings.Contains(asked[0], "recursive=true") {
		t.Fatalf("deleting the single key \"photos\" asks the filer for %q: a recursive delete, which takes every key below photos/ with it (see part 2)", asked[0])
	}
}
