package util

// Hand-written replay driver for property C33 (failing obligation
// util.ungzipData#precondition:io/ioutil.ReadAll.requires#1): input that starts with the gzip magic
// bytes but has a malformed header. gzip.NewReader returns (nil, err); the error was dropped and
// the nil reader read from. Injected with go test -overlay; never part of /repo.
//
//   cd /repo && echo '{"Replace":{"/repo/weed/util/zz_gcv_c33_test.go":"/verif/replay/c33_ungzip_malformed_test.go"}}' > /tmp/ov.json
//   go test -overlay /tmp/ov.json -vet=off -timeout 120s -run TestGcvReplayC33 ./weed/util/

import (
	"testing"
)

func TestGcvReplayC33MalformedGzipHeaderDoesNotCrash(t *testing.T) {
	for _, in := range [][]byte{
		{0x1f, 0x8b},                   // magic only
		{0x1f, 0x8b, 0x00, 0, 0, 0, 0}, // unknown compression method
		{0x1f, 0x8b, 0x08},             // truncated header
	} {
		func() {
			defer func() {
				if r := recover(); r != nil {
					t.Fatalf("DecompressData(% x) panics: %v", in, r)
				}
			}()
			out, err := DecompressData(in)
			if err == nil {
				t.Fatalf("DecompressData(% x) = % x without error", in, out)
			}
			// the read path falls back to the stored bytes
			if got := MaybeDecompressData(in); string(got) != string(in) {
				t.Fatalf("MaybeDecompressData(% x) = % x, want the input back", in, got)
			}
		}()
	}
}
