package topology

// Hand-written replay driver for property C11 (failing obligation
// topology.(*VolumeLayout).SetVolumeAvailable#postcondition:ensures#3): a volume with two replicas,
// one of them read-only, is offered for writes after SetVolumeAvailable is called for the writable
// replica (what the vacuum commit does for every replica). Injected with go test -overlay; never
// part of /repo.
//
//   cd /repo && echo '{"Replace":{"/repo/weed/topology/zz_gcv_c11_test.go":"/verif/replay/c11_set_available_readonly_replica_test.go"}}' > /tmp/ov.json
//   go test -overlay /tmp/ov.json -vet=off -timeout 120s -run TestGcvReplayC11 ./weed/topology/

import (
	"testing"

	"github.com/chrislusf/seaweedfs/weed/pb/master_pb"
	"github.com/chrislusf/seaweedfs/weed/sequence"
	"github.com/chrislusf/seaweedfs/weed/storage/needle"
	"github.com/chrislusf/seaweedfs/weed/storage/super_block"
	"github.com/chrislusf/seaweedfs/weed/storage/types"
)

func gcv11Writable(vl *VolumeLayout, vid needle.VolumeId) bool {
	for _, w := range vl.writables {
		if w == vid {
			return true
		}
	}
	return false
}

func TestGcvReplayC11SetAvailableWithReadOnlyReplica(t *testing.T) {
	topo := NewTopology("weedfs", sequence.NewMemorySequencer(), 32*1024, 5, false)
	dc := topo.GetOrCreateDataCenter("dc1")
	rack := dc.GetOrCreateRack("rack1")
	dn1 := rack.GetOrCreateDataNode("10.0.0.1", 8080, "10.0.0.1:8080", map[string]uint32{"": 10})
	dn2 := rack.GetOrCreateDataNode("10.0.0.2", 8080, "10.0.0.2:8080", map[string]uint32{"": 10})
	msg := func(ro bool) *master_pb.VolumeInformationMessage {
		return &master_pb.VolumeInformationMessage{Id: 7, Size: 1000, ReadOnly: ro, ReplicaPlacement: 1, Version: uint32(needle.CurrentVersion)}
	}
	// replica on dn1 is read-only, replica on dn2 is writable (replication 001: two copies)
	topo.SyncDataNodeRegistration([]*master_pb.VolumeInformationMessage{msg(true)}, dn1)
	topo.SyncDataNodeRegistration([]*master_pb.VolumeInformationMessage{msg(false)}, dn2)
	rp, _ := super_block.NewReplicaPlacementFromString("001")
	vl := topo.GetVolumeLayout("", rp, needle.EMPTY_TTL, types.HardDriveType)
	if gcv11Writable(vl, 7) {
		t.Fatalf("setup: volume 7 with a read-only replica is offered for writes after the heartbeats: %v", vl.writables)
	}
	// what batchVacuumVolumeCommit does for the replica that reported itself writable
	vl.SetVolumeAvailable(dn2, 7, false)
	if gcv11Writable(vl, 7) {
		t.Fatalf("volume 7 is offered for writes although its replica on %s is read-only", dn1.Id())
	}
}
