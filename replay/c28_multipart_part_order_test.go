package s3api

// Hand-written replay driver for property C28 (failing obligation
// s3api.(*S3ApiServer).completeMultipartUpload#invariant-entry:loop0...: the parts are visited in
// ascending part-number order). The real completeMultipartUpload runs against an in-process filer
// (gRPC) that lists a directory in name order, as every SeaweedFS filer store does. Parts are
// stored as "%04d.part"; S3 allows part numbers up to 10000, and "10000.part" sorts between
// "1000.part" and "1001.part". Injected with go test -overlay; never part of /repo.
//
//   cd /repo && echo '{"Replace":{"/repo/weed/s3api/zz_gcv_c28_test.go":"/verif/replay/c28_multipart_part_order_test.go"}}' > /tmp/ov.json
//   go test -overlay /tmp/ov.json -vet=off -timeout 120s -run TestGcvReplayC28 ./weed/s3api/

import (
	"context"
	"fmt"
	"net"
	"sort"
	"sync"
	"testing"

	"github.com/aws/aws-sdk-go/aws"
	"github.com/aws/aws-sdk-go/service/s3"
	"google.golang.org/grpc"

	"github.com/chrislusf/seaweedfs/weed/pb/filer_pb"
)

type c28Filer struct {
	filer_pb.UnimplementedSeaweedFilerServer
	mu      sync.Mutex
	dirs    map[string][]*filer_pb.Entry // directory -> entries
	created []*filer_pb.Entry
}

func (f *c28Filer) ListEntries(req *filer_pb.ListEntriesRequest, stream filer_pb.SeaweedFiler_ListEntriesServer) error {
	f.mu.Lock()
	entries := append([]*filer_pb.Entry(nil), f.dirs[req.Directory]...)
	f.mu.Unlock()
	sort.Slice(entries, func(i, j int) bool { return entries[i].Name < entries[j].Name }) // store order: by name
	sent := uint32(0)
	for _, e := range entries {
		if req.StartFromFileName != "" {
			if e.Name < req.StartFromFileName || (e.Name == req.StartFromFileName && !req.InclusiveStartFrom) {
				continue
			}
		}
		if req.Limit > 0 && sent >= req.Limit {
			break
		}
		if err := stream.Send(&filer_pb.ListEntriesResponse{Entry: e}); err != nil {
			return err
		}
		sent++
	}
	return nil
}

func (f *c28Filer) LookupDirectoryEntry(ctx context.Context, req *filer_pb.LookupDirectoryEntryRequest) (*filer_pb.LookupDirectoryEntryResponse, error) {
	return &filer_pb.LookupDirectoryEntryResponse{Entry: &filer_pb.Entry{Name: req.Name, IsDirectory: true, Attributes: &filer_pb.FuseAttributes{}}}, nil
}

func (f *c28Filer) CreateEntry(ctx context.Context, req *filer_pb.CreateEntryRequest) (*filer_pb.CreateEntryResponse, error) {
	f.mu.Lock()
	f.created = append(f.created, req.Entry)
	f.mu.Unlock()
	return &filer_pb.CreateEntryResponse{}, nil
}

func (f *c28Filer) DeleteEntry(ctx context.Context, req *filer_pb.DeleteEntryRequest) (*filer_pb.DeleteEntryResponse, error) {
	return &filer_pb.DeleteEntryResponse{}, nil
}

func TestGcvReplayC28PartsConcatenatedInPartNumberOrder(t *testing.T) {
	lis, err := net.Listen("tcp", "127.0.0.1:0")
	if err != nil {
		t.Fatal(err)
	}
	fake := &c28Filer{dirs: map[string][]*filer_pb.Entry{}}
	srv := grpc.NewServer()
	filer_pb.RegisterSeaweedFilerServer(srv, fake)
	go srv.Serve(lis)
	defer srv.Stop()

	s3a := &S3ApiServer{option: &S3ApiServerOption{
		Filer: "filer", FilerGrpcAddress: lis.Addr().String(), BucketsPath: "/buckets", GrpcDialOption: grpc.WithInsecure(),
	}}
	bucket, uploadId, key := "b", "upload1", "/object"
	dir := s3a.genUploadsFolder(bucket) + "/" + uploadId
	// parts 999, 1000, 1001 and 10000, uploaded the way putObjectPart names them; part p holds one
	// chunk of size p whose file id names the part
	parts := []int{999, 1000, 1001, 10000}
	for _, p := range parts {
		fake.dirs[dir] = append(fake.dirs[dir], &filer_pb.Entry{
			Name:       fmt.Sprintf("%04d.part", p),
			Attributes: &filer_pb.FuseAttributes{},
			Chunks:     []*filer_pb.FileChunk{{FileId: fmt.Sprintf("3,%x", p), Size: uint64(p)}},
		})
	}
	_, code := s3a.completeMultipartUpload(&s3.CompleteMultipartUploadInput{
		Bucket: aws.String(bucket), Key: aws.String(key), UploadId: aws.String(uploadId),
	})
	if code != 0 {
		t.Fatalf("completeMultipartUpload: error code %v", code)
	}
	if len(fake.created) != 1 {
		t.Fatalf("expected one created object, got %d", len(fake.created))
	}
	got := fake.created[0].Chunks
	if len(got) != len(parts) {
		t.Fatalf("object has %d chunks, want %d", len(got), len(parts))
	}
	offset := int64(0)
	for i, p := range parts { // ascending part numbers
		want := fmt.Sprintf("3,%x", p)
		if got[i].FileId != want || got[i].Offset != offset {
			var order []string
			for _, c := range got {
				order = append(order, fmt.Sprintf("%s@%d", c.FileId, c.Offset))
			}
			t.Fatalf("chunk %d of the completed object is %s at offset %d, want part %d (%s) at offset %d; object layout: %v",
				i, got[i].FileId, got[i].Offset, p, want, offset, order)
		}
		offset += int64(p)
	}
}
