package log_buffer

// Hand-written replay driver for property C22 (failing obligation
// util/log_buffer.(*SealedBuffers).SealBuffer#postcondition:ensures#1): after three rotations the
// buffer handed back to the writer is the very array of the oldest sealed buffer, which still holds
// events that subscribers have not read. Injected with go test -overlay; never part of /repo.
//
//   cd /repo && echo '{"Replace":{"/repo/weed/util/log_buffer/zz_gcv_c22_test.go":"/verif/replay/c22_seal_buffer_alias_test.go"}}' > /tmp/ov.json
//   go test -overlay /tmp/ov.json -vet=off -timeout 120s -run TestGcvReplayC22 ./weed/util/log_buffer/

import (
	"testing"
	"time"
)

func TestGcvReplayC22WriterGetsASealedBuffer(t *testing.T) {
	sbs := newSealedBuffers(3)
	cur := make([]byte, 64)
	now := time.Now()
	for round := 1; round <= 4; round++ {
		for i := range cur[:16] {
			cur[i] = byte(round) // the events of this round
		}
		cur = sbs.SealBuffer(now, now, cur, 16)
		// the buffer the writer continues with must not be one that is still sealed with data
		for k, sealed := range sbs.buffers {
			if sealed.size > 0 && &sealed.buf[0] == &cur[0] {
				t.Fatalf("after rotation %d the writer's buffer is the array of sealed buffer %d, which holds %d bytes of round %d", round, k, sealed.size, sealed.buf[0])
			}
		}
	}
}
