package chunk_cache

// Hand-written replay driver for property C31 (open finding, failing obligation
// util/chunk_cache.lemmaDiskKeyIdentifiesFile#postcondition:ensures#1): the on-disk tiers of the real
// TieredChunkCache are keyed by the needle key alone, so a lookup for a file id that was never
// stored is answered with the bytes of another file id that has the same key in another volume.
// Injected with go test -overlay; never part of /repo.
//
//   cd /repo && echo '{"Replace":{"/repo/weed/util/chunk_cache/zz_gcv_c31_test.go":"/verif/replay/c31_disk_tier_key_test.go"}}' > /tmp/ov.json
//   go test -overlay /tmp/ov.json -vet=off -timeout 120s -run TestGcvReplayC31 ./weed/util/chunk_cache/

import (
	"bytes"
	"testing"
)

func TestGcvReplayC31SameKeyInAnotherVolume(t *testing.T) {
	cache := NewTieredChunkCache(2, t.TempDir(), 32, 1024)
	defer cache.Shutdown()
	stored := bytes.Repeat([]byte{0xA5}, 1024)
	cache.SetChunk("3,01aabbccdd", stored)
	// sanity: the stored file id reads back
	if got := cache.GetChunk("3,01aabbccdd", 1024); !bytes.Equal(got, stored) {
		t.Fatalf("stored chunk does not read back")
	}
	// same needle key (01) and cookie in volume 4: never stored, must not be answered
	if got := cache.GetChunk("4,01aabbccdd", 1024); got != nil {
		t.Errorf("lookup of 4,01aabbccdd (never stored) returned %d bytes; equal to the bytes stored for 3,01aabbccdd: %v", len(got), bytes.Equal(got, stored))
	}
	// same volume and key, another cookie
	if got := cache.GetChunk("3,0111223344", 1024); got != nil {
		t.Errorf("lookup of 3,0111223344 (never stored) returned %d bytes; equal to the bytes stored for 3,01aabbccdd: %v", len(got), bytes.Equal(got, stored))
	}
}
