package weed_server

// Hand-written replay driver for property C25 (failing obligation
// server.(*FilerServer).uploadReaderToChunks#postcondition: a body that fails part-way is an error).
// The request body delivers some bytes and then fails (client went away): the real
// uploadReaderToChunks must report the failure, otherwise the caller commits a truncated file.
// Injected with go test -overlay; never part of /repo.
//
//   cd /repo && echo '{"Replace":{"/repo/weed/server/zz_gcv_c25_test.go":"/verif/replay/c25_body_fails_midway_test.go"}}' > /tmp/ov.json
//   go test -overlay /tmp/ov.json -vet=off -timeout 120s -run TestGcvReplayC25 ./weed/server/

import (
	"errors"
	"io"
	"net/http/httptest"
	"testing"

	"github.com/chrislusf/seaweedfs/weed/operation"
)

type gcvC25FailingBody struct {
	data []byte
	pos  int
}

func (b *gcvC25FailingBody) Read(p []byte) (int, error) {
	if b.pos >= len(b.data) {
		return 0, errors.New("unexpected EOF: connection reset by peer")
	}
	n := copy(p, b.data[b.pos:])
	b.pos += n
	return n, nil
}

func TestGcvReplayC25BodyFailsPartWay(t *testing.T) {
	fs := &FilerServer{option: &FilerOption{SaveToFilerLimit: 1024}}
	body := &gcvC25FailingBody{data: []byte("the first 40 bytes of a 1000 byte upload")}
	r := httptest.NewRequest("PUT", "http://filer/dir/file.txt", io.NopCloser(body))
	w := httptest.NewRecorder()
	chunks, _, size, err, inline := fs.uploadReaderToChunks(w, r, body, 4*1024*1024, "file.txt", "", 1000, &operation.StorageOption{})
	if err == nil {
		t.Fatalf("the body failed after 40 of 1000 bytes, but the upload is reported as successful (chunks=%d size=%d inline=%d bytes): the caller commits a truncated file", len(chunks), size, len(inline))
	}
}
