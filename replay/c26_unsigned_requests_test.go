package s3api

// Hand-written replay driver for property C26 (failing obligations
// s3api.(*IdentityAccessManagement).authRequest#postcondition:ensures#3 and #4): requests that
// carry no credentials at all are presented to the real authRequest of an IdentityAccessManagement
// that has one configured identity. Injected with go test -overlay; never part of /repo.
//
//   cd /repo && echo '{"Replace":{"/repo/weed/s3api/zz_gcv_c26_test.go":"/verif/replay/c26_unsigned_requests_test.go"}}' > /tmp/ov.json
//   go test -overlay /tmp/ov.json -vet=off -timeout 120s -run TestGcvReplayC26 ./weed/s3api/

import (
	"net/http"
	"strings"
	"testing"

	"github.com/chrislusf/seaweedfs/weed/s3api/s3err"
)

func gcv26Iam() *IdentityAccessManagement {
	return &IdentityAccessManagement{identities: []*Identity{{
		Name:        "alice",
		Credentials: []*Credential{{AccessKey: "AKIAALICE", SecretKey: "secret"}},
		Actions:     []Action{"Read:photos"},
	}}}
}

// An unsigned PUT that merely announces a streaming-signed payload must not be authorised
// (obligation ensures#3: success for this request style needs a verified signature of an
// identity that may perform the action).
func TestGcvReplayC26StreamingMarkerWithoutSignature(t *testing.T) {
	iam := gcv26Iam()
	r, _ := http.NewRequest(http.MethodPut, "http://s3.local/photos?tagging", strings.NewReader("x"))
	r.Header.Set("x-amz-content-sha256", streamingContentSHA256)
	identity, code := iam.authRequest(r, "Tagging")
	if code == s3err.ErrNone {
		t.Fatalf("unsigned PUT with the streaming payload marker is authorised (identity=%v)", identity)
	}
}

// A streaming upload whose seed signature is valid is still accepted (and still subject to the
// identity's permissions): the repair must not lock out legitimate clients.
func TestGcvReplayC26StreamingWithValidSeedSignature(t *testing.T) {
	iam := &IdentityAccessManagement{identities: []*Identity{{
		Name:        "alice",
		Credentials: []*Credential{{AccessKey: "AKIAALICE", SecretKey: "secret"}},
		Actions:     []Action{"Write"},
	}}}
	r, _ := http.NewRequest(http.MethodPut, "http://s3.local/photos/a.jpg", strings.NewReader("x"))
	r.Header.Set("x-amz-content-sha256", streamingContentSHA256)
	if err := signRequestV4(r, "AKIAALICE", "secret"); err != nil {
		t.Fatal(err)
	}
	if getRequestAuthType(r) != authTypeStreamingSigned {
		t.Fatalf("request is not classified as streaming signed")
	}
	identity, code := iam.authRequest(r, "Write")
	if code != s3err.ErrNone || identity == nil || identity.Name != "alice" {
		t.Fatalf("validly signed streaming request: code %v identity %v", code, identity)
	}
	r2, _ := http.NewRequest(http.MethodPut, "http://s3.local/photos/a.jpg", strings.NewReader("x"))
	r2.Header.Set("x-amz-content-sha256", streamingContentSHA256)
	if err := signRequestV4(r2, "AKIAALICE", "wrong-secret"); err != nil {
		t.Fatal(err)
	}
	if _, code := iam.authRequest(r2, "Write"); code != s3err.ErrSignatureDoesNotMatch {
		t.Fatalf("streaming request signed with the wrong secret: got %v, want ErrSignatureDoesNotMatch", code)
	}
}

// An unsigned multipart/form-data POST (the request style of browser uploads with a POST policy)
// must not be authorised for arbitrary POST operations (obligation ensures#4).
func TestGcvReplayC26FormPostWithoutSignature(t *testing.T) {
	iam := gcv26Iam()
	r, _ := http.NewRequest(http.MethodPost, "http://s3.local/photos?delete", strings.NewReader("x"))
	r.Header.Set("Content-Type", "multipart/form-data; boundary=xyz")
	identity, code := iam.authRequest(r, "Write")
	if code == s3err.ErrNone {
		t.Fatalf("unsigned multipart/form-data POST is authorised (identity=%v)", identity)
	}
}
