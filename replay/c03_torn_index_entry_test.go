package storage

// Hand-written replay driver for property C03 (failing obligation
// storage.verifyIndexFileIntegrity#postcondition: a torn last index entry is tolerated). A volume
// server stops while appending an index entry: the index file keeps a prefix of the 16 bytes.
// Injected with go test -overlay; never part of /repo.
//
//   cd /repo && echo '{"Replace":{"/repo/weed/storage/zz_gcv_c03_test.go":"/verif/replay/c03_torn_index_entry_test.go"}}' > /tmp/ov.json
//   go test -overlay /tmp/ov.json -vet=off -timeout 120s -run TestGcvReplayC03 ./weed/storage/

import (
	"os"
	"testing"

	"github.com/chrislusf/seaweedfs/weed/storage/needle"
	"github.com/chrislusf/seaweedfs/weed/storage/super_block"
	"github.com/chrislusf/seaweedfs/weed/storage/types"
)

func TestGcvReplayC03TornIndexEntry(t *testing.T) {
	for _, recordReachedDataFile := range []bool{false, true} {
		gcvC03Scenario(t, recordReachedDataFile)
	}
}

func gcvC03Scenario(t *testing.T, recordReachedDataFile bool) {
	dir := t.TempDir()
	v, err := NewVolume(dir, dir, "", 1, NeedleMapInMemory, &super_block.ReplicaPlacement{}, &needle.TTL{}, 0, 0)
	if err != nil {
		t.Fatalf("volume creation: %v", err)
	}
	write := func(v *Volume, id uint64, data string) error {
		n := &needle.Needle{Id: types.NeedleId(id), Cookie: 0x12345678, Data: []byte(data)}
		n.Checksum = needle.NewCRC(n.Data)
		_, _, _, err := v.writeNeedle2(n, false)
		return err
	}
	for i := uint64(1); i <= 3; i++ {
		if err := write(v, i, "payload of a fully written blob"); err != nil {
			t.Fatalf("write %d: %v", i, err)
		}
	}
	// the server stopped while the index entry of a 4th blob was being appended: 5 of its 16 bytes
	// reached the index file; the data file got none of the record, or all of it
	if recordReachedDataFile {
		if err := write(v, 4, "the blob whose index entry was torn"); err != nil {
			t.Fatalf("write 4: %v", err)
		}
		v.Close()
		fi, err := os.Stat(v.FileName(".idx"))
		if err != nil {
			t.Fatal(err)
		}
		if err := os.Truncate(v.FileName(".idx"), fi.Size()-11); err != nil {
			t.Fatal(err)
		}
	} else {
		v.Close()
		f, err := os.OpenFile(v.FileName(".idx"), os.O_WRONLY|os.O_APPEND, 0644)
		if err != nil {
			t.Fatal(err)
		}
		f.Write([]byte{0, 0, 0, 0, 0})
		f.Close()
	}

	v2, err := NewVolume(dir, dir, "", 1, NeedleMapInMemory, nil, nil, 0, 0)
	if err != nil {
		t.Fatalf("reopening the volume fails: %v", err)
	}
	defer v2.Close()
	for i := uint64(1); i <= 3; i++ {
		n := &needle.Needle{Id: types.NeedleId(i), Cookie: 0x12345678}
		if _, err := v2.readNeedle(n, nil); err != nil || string(n.Data) != "payload of a fully written blob" {
			t.Fatalf("blob %d, fully written before the stop, does not read back after reopening: %v %q", i, err, n.Data)
		}
	}
	if err := write(v2, 5, "a new blob after the restart"); err != nil {
		t.Fatalf("the reopened volume does not accept new writes: %v (noWriteOrDelete=%v)", err, v2.noWriteOrDelete)
	}
	n := &needle.Needle{Id: 5, Cookie: 0x12345678}
	if _, err := v2.readNeedle(n, nil); err != nil || string(n.Data) != "a new blob after the restart" {
		t.Fatalf("the blob written after the restart does not read back: %v %q", err, n.Data)
	}
}
